#!/venv/bin/python
"""archive a verified seeded change: tools/seedsave.py <worktree> <name> <property> '<needs>' '<caught by / notes>'"""
import json, os, shutil, subprocess, sys
wt, name, prop, needs, notes = sys.argv[1:6]
dst = os.path.join("/verif/seeded", name)
os.makedirs(dst, exist_ok=True)
diff = subprocess.run(["git", "-C", wt, "diff", "--", "aquacrop"], capture_output=True, text=True).stdout
open(os.path.join(dst, "patch.diff"), "w").write(diff)
for f in ("demo.py", "README.md"):
    if os.path.exists(os.path.join(wt, "seed", f)):
        shutil.copy(os.path.join(wt, "seed", f), os.path.join(dst, f))
base = subprocess.run(["git", "-C", wt, "rev-parse", "--short", "HEAD"], capture_output=True, text=True).stdout.strip()
json.dump({"breaks_property": prop, "based_on_repo_commit": base, "needs_to_manifest": needs,
           "verified": "33 tests pass with the change; demo.py exits 1 with the change and 0 without (run from the tree root); "
                       "our check run with VERIF_REPO pointing at the changed tree",
           "result": notes, "source": "independent sub-agent given only the property text and a scratch worktree"},
          open(os.path.join(dst, "meta.json"), "w"), indent=1)
print("saved", dst, len(diff.splitlines()), "diff lines")
