#!/bin/bash
# run every registered check at the given tier (default quick), validate MANIFEST and evidence files
TIER=${1:-quick}
cd "$(dirname "$0")/.." && ROOT=$(pwd)
rc=0
for P in $(/venv/bin/python -c "import json; print(' '.join(c['property_id'] for c in json.load(open('MANIFEST.json'))['checks']))"); do
  out=$(./check check $P --tier $TIER 2>&1); e=$?
  echo "$out" | grep -E "^(VIOLATION|KNOWN-FINDING|HARNESS|summary|WARNING)" | cut -c1-230
  echo "   -> $P exit $e"
  [ $e -ne 0 ] && rc=1
done
python3-vt - <<'PY'
import json, jsonschema, glob
man = json.load(open('MANIFEST.json'))
jsonschema.validate(man, json.load(open('/root/.vp/MANIFEST.schema.json')))
sch = json.load(open('/root/.vp/EVIDENCE.schema.json'))
for c in man['checks']:
    import os; ev = json.load(open(os.path.join('evidence', os.path.basename(c['evidence_file']))))
    jsonschema.validate(ev, sch)
    assert ev['property_id'] == c['property_id'] and ev['level'] == c['level_claimed']['category'], c['property_id']
print("manifest + %d evidence files valid" % len(man['checks']))
PY
exit $rc
