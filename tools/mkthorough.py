#!/venv/bin/python
"""Write section 19 of DESIGN.md (results of the thorough tier) from a tools/runall.sh thorough log.
usage: tools/mkthorough.py <log> "<free text appended under the table>" """
import os, re, sys
V = os.path.dirname(os.path.dirname(os.path.abspath(__file__)))
log = open(sys.argv[1]).read()
note = sys.argv[2] if len(sys.argv) > 2 else ""
rows = []
for m in re.finditer(r"summary property=(C\d+) runs=(\d+)/(\d+) evaluations=(\d+) distinct_nontrivial=(\d+) days=(\d+) status=(\{.*?\}) violations=(\d+) known=(\d+) harness_errors=(\d+) wall=([\d.]+)s", log):
    pid, done, n, ev, dn, days, st, viol, known, he, wall = m.groups()
    rows.append((pid, done, n, ev, dn, days, st, viol, known, he, wall))
lines = ["## 19. Results of the thorough tier", "",
         "One pass of `tools/runall.sh thorough` (VERIF_SEED=0, 16 workers, wall budget 25 min per property, run in the background while other",
         "work used part of the machine, so the budget cut some batches short - `runs` shows how many of the planned runs were executed).", "",
         "| property | runs executed / planned | evaluations | distinct non-trivial | simulated days (years) | run status | violations | known findings met | harness errors | wall |",
         "|---|---|---|---|---|---|---|---|---|---|"]
for pid, done, n, ev, dn, days, st, viol, known, he, wall in rows:
    lines.append(f"| {pid} | {done} / {n} | {ev} | {dn} | {days} ({int(days) / 365.25:.0f}) | {st.replace('{', '').replace('}', '').replace(chr(39), '')} | {viol} | {known} | {he} | {float(wall) / 60:.1f} min |")
tot_runs = sum(int(r[1]) for r in rows); tot_days = sum(int(r[5]) for r in rows)
lines += ["", f"Total: {tot_runs} simulated runs, {tot_days} simulated days ({tot_days / 365.25:.0f} years) in {sum(float(r[10]) for r in rows) / 3600:.1f} h of wall time.", ""]
if note:
    lines += [note, ""]
text = "\n".join(lines) + "\n"
p = os.path.join(V, "DESIGN.md")
s = open(p).read()
if "## 19. Results of the thorough tier" in s:
    a = s.index("## 19. Results of the thorough tier")
    b = s.index("### 17.1 Catch matrix")
    s = s[:a] + text + s[b:]
else:
    b = s.index("### 17.1 Catch matrix")
    s = s[:b] + text + s[b:]
open(p, "w").write(s)
print("section 19 written:", len(rows), "properties")
