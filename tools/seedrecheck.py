#!/venv/bin/python
"""Re-run the quick check of the owning property against every archived seeded change (seeded/*/patch.diff applied to a
scratch copy of /repo's working tree) and record the outcome in seeded/<name>/meta.json under "recheck".

usage: tools/seedrecheck.py [name-substring ...] [--jobs N] [--tier quick|thorough]
Scratch copies live under $VERIF_SCRATCH (default /tmp/verif-seedrecheck) and are removed as soon as each run ends."""
import glob, json, os, shutil, subprocess, sys, tempfile, time
from concurrent.futures import ThreadPoolExecutor

V = os.path.dirname(os.path.dirname(os.path.abspath(__file__)))
REPO = os.environ.get("VERIF_REPO", "/repo")
argv = sys.argv[1:]
jobs, tier, args = 4, "quick", []
i = 0
while i < len(argv):
    if argv[i] == "--jobs":
        jobs = int(argv[i + 1]); i += 2
    elif argv[i] == "--tier":
        tier = argv[i + 1]; i += 2
    else:
        args.append(argv[i]); i += 1
root = os.environ.get("VERIF_SCRATCH") or "/tmp/verif-seedrecheck"
os.makedirs(root, exist_ok=True)
head = subprocess.run(["git", "-C", V, "rev-parse", "--short", "HEAD"], capture_output=True, text=True).stdout.strip()


def one(d):
    name = os.path.basename(d)
    meta = json.load(open(os.path.join(d, "meta.json")))
    pid = meta["breaks_property"]
    t0 = time.time()
    if meta.get("obsolete_since"):
        return name, pid, "obsolete", [meta["obsolete_since"]["repo_commit"]], 0.0
    tmp = tempfile.mkdtemp(prefix="seed-", dir=root)
    try:
        shutil.copytree(os.path.join(REPO, "aquacrop"), os.path.join(tmp, "aquacrop"), ignore=shutil.ignore_patterns("__pycache__", "*.pyc"))
        # the archived diffs are LF text; some repository files are CRLF: apply on an LF view of those files, then restore CRLF
        diff = open(os.path.join(d, "patch.diff"), newline="").read().replace("\r\n", "\n")
        files = [l[6:].strip() for l in diff.splitlines() if l.startswith("+++ b/")]
        crlf = []
        for f in files:
            fp = os.path.join(tmp, f)
            if os.path.exists(fp):
                raw = open(fp, newline="").read()
                if "\r\n" in raw:
                    crlf.append(fp)
                    open(fp, "w", newline="").write(raw.replace("\r\n", "\n"))
        lf = os.path.join(tmp, "seed.lf.diff")
        open(lf, "w", newline="").write(diff)
        p = subprocess.run(["git", "apply", "--whitespace=nowarn", lf], cwd=tmp, capture_output=True, text=True)
        if p.returncode != 0:
            return name, pid, None, ["patch does not apply: " + (p.stderr or p.stdout)[-200:]], time.time() - t0
        for fp in crlf:
            raw = open(fp, newline="").read()
            open(fp, "w", newline="").write(raw.replace("\n", "\r\n"))
        env = dict(os.environ, VERIF_REPO=tmp, VERIF_NO_EVIDENCE="1", VERIF_MINIMISE_BUDGET_S="3", VERIF_WORKERS=str(max(4, 16 // jobs)))
        env.setdefault("VERIF_SEED", "0")
        q = subprocess.run([os.path.join(V, "check"), "check", pid, "--tier", tier], env=env, capture_output=True, text=True, timeout=7200)
        sigs = [l.split("signature:")[1].strip() for l in q.stdout.splitlines() if "signature:" in l]
        caught = q.returncode == 1 and "VIOLATION property=" in q.stdout
        if q.returncode == 2:
            sigs = ["HARNESS ERROR: " + q.stdout[-300:]]
        return name, pid, caught, sigs[:4], time.time() - t0
    finally:
        shutil.rmtree(tmp, ignore_errors=True)


dirs = [d for d in sorted(glob.glob(os.path.join(V, "seeded", "*"))) if os.path.isdir(d) and (not args or any(a in os.path.basename(d) for a in args))]
missed = []
with ThreadPoolExecutor(jobs) as ex:
    for name, pid, caught, sigs, dt in ex.map(one, dirs):
        if caught == "obsolete":
            print(f"{name:70s} {pid} OBSOLETE since repo commit {sigs[0]} (no longer breaks the property)", flush=True)
            continue
        print(f"{name:70s} {pid} {'CAUGHT' if caught else ('MISSED' if caught is False else 'ERROR')} {sigs[:2]} {dt:.0f}s", flush=True)
        mp = os.path.join(V, "seeded", name, "meta.json")
        m = json.load(open(mp))
        m.setdefault("recheck", {})[tier] = {"verif_commit": head, "seed": int(os.environ.get("VERIF_SEED", "0")), "caught": caught, "signatures": sigs}
        json.dump(m, open(mp, "w"), indent=1)
        if not caught:
            missed.append(name)
print(f"seedrecheck ({tier}): {len(dirs) - len(missed)}/{len(dirs)} caught; not caught: {missed}")
try:
    os.rmdir(root)
except OSError:
    pass
