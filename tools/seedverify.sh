#!/bin/bash
# usage: tools/seedverify.sh <worktree> <PROPERTY> [more properties...]
# verifies a seeded change: tests pass with it, demo fails with it and passes without, then runs our checks on it
WT=$1; shift
cd $WT || exit 2
echo "== tests with change"; /venv/bin/python -m pytest -q -p no:cacheprovider tests 2>&1 | tail -1
echo "== demo with change"; /venv/bin/python seed/demo.py > $WT/seed/demo_with.log 2>&1; echo "exit $?"; tail -2 $WT/seed/demo_with.log | cut -c1-200
git diff -- aquacrop > $WT/seed/current.diff
git checkout -- aquacrop
echo "== demo without change"; /venv/bin/python seed/demo.py > $WT/seed/demo_without.log 2>&1; echo "exit $?"; tail -1 $WT/seed/demo_without.log | cut -c1-200
git apply $WT/seed/current.diff
for P in "$@"; do
  echo "== our check $P on the changed tree"
  (cd /verif && VERIF_REPO=$WT VERIF_NO_EVIDENCE=1 ./check check $P 2>&1 | grep -E "^VIOLATION|signature|summary|HARNESS" | cut -c1-260)
done
