#!/bin/bash
# thorough tier for a subset of the checks: tools/thorough_subset.sh C04 C05 ...
cd "$(dirname "$0")/.."
for P in "$@"; do
  out=$(VERIF_NO_EVIDENCE=1 ./check check $P --tier thorough 2>&1); e=$?
  echo "$out" | grep -E "^(VIOLATION|KNOWN-FINDING|HARNESS|summary|WARNING)|signature|message" | cut -c1-300
  echo "   -> $P exit $e"
done
