#!/bin/bash
# quick tier of every check under several VERIF_SEED values (no evidence written); prints only non-clean lines
cd "$(dirname "$0")/.."
for S in "$@"; do
  for P in $(/venv/bin/python -c "import json; print(' '.join(c['property_id'] for c in json.load(open('MANIFEST.json'))['checks']))"); do
    out=$(VERIF_SEED=$S VERIF_NO_EVIDENCE=1 ./check check $P --tier quick 2>&1); e=$?
    echo "seed=$S $P exit=$e $(echo "$out" | grep -E '^summary' | sed -E 's/.*(status=.*)/\1/' | cut -c1-160)"
    [ $e -ne 0 ] && echo "$out" | grep -E "^(VIOLATION|HARNESS)|signature|message" | cut -c1-300
  done
done
