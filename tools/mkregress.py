#!/venv/bin/python
"""Build the committed regression cases (explicit specs, explicit weather) for defects that were
found by the checks and repaired (or recorded).  Each case is verified two ways before it is
written: it must be clean (or a listed known finding) on the current tree, and - when a base tree
is given - it must raise the expected signature prefix there.

usage: tools/mkregress.py [--base /path/to/pre-fix/tree]
"""
import copy, datetime as dt, json, os, random, subprocess, sys
HERE = os.path.dirname(os.path.abspath(__file__))
VERIF = os.path.dirname(HERE)
sys.path.insert(0, VERIF)
from dst import boot  # noqa
from dst.spec import default_spec, parse_date, fmt_date
from dst.weather import make_weather, make_event
from dst import engine


def wx(seed, start, end, arche="warm", events=()):
    rng = random.Random(seed)
    w = make_weather(rng, parse_date(start), parse_date(end), archetype=arche)
    w["events"] = list(events)
    return w


def spec(**kw):
    s = default_spec()
    for k, v in kw.items():
        s[k] = v
    if s["weather"] is None:
        s["weather"] = wx(1, s["start"], s["end"])
    return s


def std(sp, **kw):
    c = {"spec": sp, "partition": "mixed", "part_seed": 7, "controller": None, "first_call_init": False}
    c.update(kw)
    return c


CASES = []


def add(pid, name, case, expect_prefix, note):
    CASES.append((pid, name, case, expect_prefix, note))


# --- C16 / C12: rainfall_partition wrote into the profile
sp = spec(start="1990/05/01", end="1990/10/30", soil={"type": "SandyLoam", "kwargs": {"z_cn": 0.25}, "layers": None})
add("C16", "dzsum-write-zcn", {"spec": sp, "mode": "till", "k": 1}, "C16:crash:ValueError:assignment destination is read-only", "18266e4")
add("C12", "dzsum-write-zcn", std(copy.deepcopy(sp)), "C12:", "18266e4")
sp2 = spec(start="1990/05/01", end="1990/12/30", crop={"name": "AlfalfaGDD", "planting_date": "05/01", "harvest_date": None, "overrides": {}})
add("C12", "dzsum-write-deepened-profile", std(sp2), "C12:", "18266e4")
# --- C16: ETadj=0
sp = spec(crop={"name": "Maize", "planting_date": "05/01", "harvest_date": None, "overrides": {"ETadj": 0}})
add("C16", "etadj0", {"spec": sp, "mode": "till", "k": 1}, "C16:crash:UnboundLocalError", "267b1a5")
# --- C16: bunds with default height
sp = spec(field={"bunds": True})
add("C16", "bunds-default-height", {"spec": sp, "mode": "till", "k": 1}, "C16:crash:UnboundLocalError", "d0a0cc7")
# --- C16: end date on 29 February
sp = spec(start="1991/05/01", end="1992/02/29")
add("C16", "end-feb29", {"spec": sp, "mode": "till", "k": 1}, "C16:crash:DateParseError", "c2532b4")
# --- C16: deepening loop hang
sp = spec(soil={"type": "SandyLoam", "kwargs": {"dz": [0.25] * 4}, "layers": None},
          crop={"name": "Tomato", "planting_date": "05/01", "harvest_date": None, "overrides": {}})
add("C16", "deepening-hang", {"spec": sp, "mode": "till", "k": 1}, "C16:hang@", "4c6f8d6")
# --- C05: restrictive layer
sp = spec(start="1990/05/01", end="1990/11/30", crop={"name": "Sorghum", "planting_date": "05/01", "harvest_date": None, "overrides": {}},
          soil={"type": "custom", "kwargs": {"dz": [0.1] * 12}, "layers": [["hyd", 0.4, 0.10, 0.22, 0.41, 1200, 100], ["hyd", 3.0, 0.15, 0.31, 0.46, 500, 30]]},
          iwc={"wc_type": "Prop", "method": "Layer", "depth_layer": [1, 2], "value": ["FC", "FC"]})
add("C05", "restrictive-layer-roots", std(sp), "C05:z_root", "83feed3")
# --- C04: closed canopy
sp = spec(start="1990/05/01", end="1990/12/30", crop={"name": "Cotton", "planting_date": "05/01", "harvest_date": None, "overrides": {}},
          irr={"method": 1, "kwargs": {"SMT": [80, 80, 80, 80]}, "schedule": None})
add("C04", "espot-closed-canopy", std(sp), "C04:", "e9fc0a3")
# --- C07: in-season day after latest-harvest-date harvest, off-season simulated
sp = spec(start="1990/03/01", end="1992/03/01", off_season=True,
          crop={"name": "Maize", "planting_date": "05/01", "harvest_date": "07/15", "overrides": {}})
add("C07", "day-after-latest-harvest", std(sp), "C07:dap", "9f2c06f")
# --- C08 / C01: thini alias with net irrigation
sp = spec(start="1990/05/01", end="1992/12/30", irr={"method": 4, "kwargs": {"NetIrrSMT": 80}, "schedule": None},
          iwc={"wc_type": "Pct", "method": "Layer", "depth_layer": [1], "value": [30]})
sp["weather"] = wx(3, sp["start"], sp["end"], "semiarid")
add("C08", "thini-alias-net-irrigation", {"spec": sp}, "C08:daily-rows-differ", "d633297")
add("C01", "thini-alias-net-irrigation", std(copy.deepcopy(sp)), "C01:reset-not-configured-initial", "d633297")
# --- C08: stale e_pot/t_pot with threshold irrigation
sp = spec(start="1990/05/01", end="1992/12/30", irr={"method": 1, "kwargs": {"SMT": [80, 80, 80, 80]}, "schedule": None},
          iwc={"wc_type": "Pct", "method": "Layer", "depth_layer": [1], "value": [50]})
sp["weather"] = wx(4, sp["start"], sp["end"], "semiarid")
add("C08", "stale-demand-threshold-irrigation", {"spec": sp}, "C08:daily-rows-differ", "0b6e544")
# --- C15: weather columns in another order / extra columns
sp = spec(start="1990/05/01", end="1990/10/30")
add("C15", "column-order", {"spec": sp, "transforms": [{"op": "permute", "order": [2, 0, 1, 3, 4]}]}, "C15:", "9b2fd26")
add("C15", "extra-column-front", {"spec": copy.deepcopy(sp), "transforms": [{"op": "extra_cols", "names": ["Wind"], "pos": "front", "seed": 3}]}, "C15:", "9b2fd26")
# --- C11: dated schedule consumed by the first run
sp = spec(start="1990/05/01", end="1990/10/30", irr={"method": 3, "kwargs": {}, "schedule": [["1990/06/01", 20], ["1990/07/01", 30]]})
add("C11", "schedule-consumed", {"spec": sp, "enumerate": False, "history": [{"op": "run", "model": "new", "how": "till"}, {"op": "run", "model": "new", "how": "till"}]}, "C11:raises-on-reuse", "8ff9630")
add("C11", "schedule-consumed-after-abandon", {"spec": copy.deepcopy(sp), "enumerate": False, "history": [{"op": "abandon", "model": "new", "steps": 1}, {"op": "run", "model": "same", "how": "till"}]}, "C11:raises-on-reuse", "8ff9630")
# --- C20: curve-number percentage without its flag
sp = spec(start="1990/05/01", end="1990/10/30", soil={"type": "Clay", "kwargs": {}, "layers": None})
sp["weather"] = wx(5, sp["start"], sp["end"], "tropical")
add("C20", "cn-pct-without-flag", {"spec": sp, "toggles": [{"t": "cnpct_without_flag", "which": "field", "args": {"mulch_pct": 50, "f_mulch": 0.5, "z_bund": 0.1, "bund_water": 0, "pct": 20}}]}, "C20:not-inert", "f96ce68")


def main():
    base = None
    if "--base" in sys.argv:
        base = sys.argv[sys.argv.index("--base") + 1]
    only = None
    if "--only" in sys.argv:
        only = sys.argv[sys.argv.index("--only") + 1]
    for pid, name, case, prefix, note in CASES:
        if only and only not in (pid, name):
            continue
        try:
            engine.prop_module(pid)
        except ModuleNotFoundError:
            print(f"skip {pid}/{name}: check not built yet")
            continue
        d = os.path.join(VERIF, "regress", pid)
        os.makedirs(d, exist_ok=True)
        path = os.path.join(d, name + ".json")
        with open(path, "w") as f:
            json.dump({"property": pid, "signature": prefix, "message": f"regression case for fix {note}", "case": case}, f)
        res = engine.exec_case(pid, json.load(open(path))["case"])
        sigs = [v["sig"] for v in res["violations"]]
        cur = "clean" if not sigs else f"VIOLATIONS {sigs}"
        line = f"{pid}/{name}: current tree: status={res['status']} {cur}"
        if base:
            env = dict(os.environ, VERIF_REPO=base, PYTHONHASHSEED="0")
            p = subprocess.run([sys.executable, "-B", "-W", "ignore", os.path.join(VERIF, "dst", "cli.py"), "replay", path],
                               env=env, capture_output=True, text=True, timeout=600)
            hit = [l for l in p.stdout.splitlines() if "violation:" in l]
            ok = any(prefix in l for l in hit)
            line += f" | base tree: {'DETECTED' if ok else 'MISSED'} {hit[:2] if not ok else ''}"
        print(line, flush=True)


if __name__ == "__main__":
    main()
