#!/venv/bin/python
"""Regenerates MANIFEST.json from the table below (kept in one place so it is always valid)."""
import json, os

BASE_OFF = "cd /repo && /venv/bin/python -m pytest -ra -q -p no:cacheprovider --timeout=900 --continue-on-collection-errors"

CHECKS = {
 # id: (level, technique, level text, design_ref, level_note)
 "C01": ("exploration", "deterministic simulation: seeded configuration/weather/event swarm, per-day and per-process water ledgers as invariants",
         "seeded search over simulated runs with injected storms and droughts (placed by the calendar and, through state-triggered rules, on the day the model reaches a given state), controller writes and step partitions, plus flooded-basin / hardpan / shallow-pond regimes; the ledger is evaluated on every simulated day between steps. Sampling, not proof.", "DESIGN.md section 6 C01",
         "trusts the harness-side ledger arithmetic and the compartment thicknesses copied at initialisation"),
 "C02": ("exploration", "deterministic simulation: seeded swarm with storm / bund-removal events (calendar-placed and state-triggered), surface partition identities checked per day against delivered weather",
         "seeded search; identities checked on every simulated day against the weather the world delivered", "DESIGN.md section 6 C02", "trusts the harness's own determination of which field management applies on a day"),
 "C03": ("exploration", "deterministic simulation: seeded swarm with saturated starts, storms, droughts, shallow and jumping water tables (events placed by the calendar and by state-triggered rules), bounds as per-day invariants",
         "seeded search; bounds checked per compartment per day against arrays copied at initialisation", "DESIGN.md section 6 C03", "profile arrays copied at initialisation are the reference"),
 "C04": ("exploration", "deterministic simulation: seeded swarm biased to closed canopies, ponding, mulches; sign/ordering of fluxes as per-day invariants",
         "seeded search; sign and ordering of the nine fluxes checked on every simulated day", "DESIGN.md section 6 C04", "none beyond the harness"),
 "C05": ("exploration", "deterministic simulation: seeded swarm over all crops with restrictive layers, tables and stress events; crop envelope as per-day invariants",
         "seeded search; envelope checked on every in-season day against the season's crop parameters", "DESIGN.md section 6 C05", "reads the season's crop parameters from the initialised model"),
 "C16": ("exploration", "deterministic simulation: covering catalogue sweep (crop x soil pairs by index, other dimensions and events PRNG-drawn), exception classifier + finiteness + termination as the invariant",
         "seeded catalogue exploration with injected weather events; every exception is classified by type, message and call site; sampling, not proof", "DESIGN.md section 6 C16", "the list of permitted rejections in dst/domain.py encodes the property text"),
 "C06": ("exploration", "deterministic simulation: seeded swarm with crop-death and cap events; per-day yield identities plus an exactly-once history check of the seasonal summary against observed harvest days",
         "seeded search; the summary is checked as a history (one row per harvested season, in order, equal to the harvest day's daily values)", "DESIGN.md section 6 C06", "harvest days are observed from state flags between steps"),
 "C07": ("exploration", "deterministic simulation: seeded windows x step partitions; simulated-day history decided against an independent date-arithmetic reference model, bounded liveness",
         "seeded search over window shapes and call partitions; the recorded day history is checked against a reference calendar driven by observed season-end events; every run must finish within len(time_span) calls", "DESIGN.md section 6 C07", "season-end events are read through the termination-check seam; maturity thresholds come from the season's crop parameters"),
 "C08": ("exploration", "deterministic simulation: the season reset as an internal restart, compared bitwise with fresh single-season nodes built from fresh objects",
         "seeded search over multi-season bundles with events that make earlier seasons end away from the initial condition; every season k >= 1 compared bitwise with a fresh run", "DESIGN.md section 6 C08", "fresh objects built from the same spec are the oracle; inputs that legitimately differ are excluded and named"),
 "C09": ("exploration", "deterministic simulation: seeded scheduler of run_model call partitions (random, boundary-aligned, exhaustive compositions of short windows and of forked suffixes), neighbour noise, bitwise comparison with the uninterrupted run",
         "seeded search over call schedules plus exhaustively enumerated sub-spaces (all compositions of windows <= 9 days and of the last <= 7 steps before each harvest/termination from a checkpoint fork)", "DESIGN.md section 6 C09", "deepcopy fork of a model is checked for fidelity before it is used"),
 "C11": ("fault_enumeration", "deterministic simulation with fault injection: histories of uses of the same durable objects with abandon, in-step crash (SimCrash at a chosen process call) and restart; completed runs compared bitwise with the first run and with fresh objects",
         "for short windows every abandon point and every (step, process-call) crash point is enumerated; long windows are sampled with bias to day 0, planting, harvest and the last day; plus seeded exploration over configurations and histories", "DESIGN.md section 6 C11", "only the restarted run is compared after an injected fault; fresh objects built from the same spec are the second oracle"),
 "C12": ("exploration", "deterministic simulation: value snapshots of every configured object around every day and every clock update (seams on solution_single_time_step and update_time), allowed-change list as the invariant",
         "seeded search; snapshots compared before/after each daily solution and each clock update, inside multi-day calls too; attempted writes on read-only arrays are classified as violations", "DESIGN.md section 6 C12", "the internal fallow filler crop is not a configured parameter and is excluded"),
 "C15": ("exploration", "deterministic simulation: twin nodes, seeded sequences of benign transport transformations on the weather input channel, bitwise comparison",
         "seeded search over transformation sequences (all 120 column orders within a thorough run); no schedule dimension of its own", "DESIGN.md section 6 C15", "the canonical frame run is the oracle"),
 "C20": ("exploration", "deterministic simulation: twin nodes, seeded sets of neutral configuration toggles, bitwise comparison, per-toggle bisection on failure",
         "seeded search over base configurations and toggle sets (alone and in combination); no schedule dimension of its own", "DESIGN.md section 6 C20", "the base configuration run is the oracle"),
 "C10": ("exploration", "deterministic simulation: seeded interleaving of colliding model instances with neighbour noise, PRNG-dealt worker assignment and hash-seeded interpreter restarts; fresh-interpreter digest as oracle",
         "seeded search over instance interleavings, worker assignments and hash seeds; each result compared with the digest its spec gives alone in a fresh interpreter", "DESIGN.md section 6 C10", "fresh interpreters are real subprocesses; the choice of who runs where and when is the PRNG's"),
 "C13": ("exploration", "deterministic simulation: irrigation decision captured at the rebinding seam, per-strategy executable reference models, controller writes between steps",
         "seeded search; every in-season decision compared with a reference model written from the property text; threshold days inside the rounding band are counted undecidable, not passed", "DESIGN.md section 6 C13", "the threshold reference integrates the root zone from the state the decision saw; tolerance 0.02 mm x compartments"),
 "C14": ("exploration", "deterministic simulation with fault injection: undelivered future weather (garbage / NaN poison) with just-in-time delivery, garbage outside the window, end-date extension; bitwise comparison with the up-front reference",
         "seeded search; one just-in-time run covers every cut day for its perturbation; thermal-time crops only in the outside/extension modes", "DESIGN.md section 6 C14", "writes rows of the documented model._weather matrix before each step"),
 "C19": ("exploration", "deterministic simulation: water-table bundles, groundwater-check and capillary-rise seams, independent table-depth series model, no-table and far-table twins",
         "seeded search; relations checked on every simulated day, twin runs compared bitwise (z_gw exempt)", "DESIGN.md section 6 C19", "far-table twin avoids the documented 'FC follows the table' initialisation path"),
}

NOT_APPLICABLE = {
 "C17": "pure functions of a handful of floats over a dense argument lattice: no state, clock, schedule, fault or history for a simulator to vary (DESIGN.md section 7)",
 "C18": "pure function of the soil / crop-depth / initial-water specification, fixed before the first step exists; its only history (a Soil deepened by an earlier run) is decided by C11 (DESIGN.md section 7)",
}
NOT_YET = {}

def main():
    ids = [json.loads(l)["id"] for l in open(os.path.join(os.path.dirname(__file__), "properties.jsonl"))]
    checks = []
    for pid in ids:
        if pid in CHECKS:
            lvl, tech, text, ref, note = CHECKS[pid]
            checks.append({
                "property_id": pid,
                "quick_cmd": f"./check check {pid} --tier quick",
                "thorough_cmd": f"./check check {pid} --tier thorough",
                "evidence_file": f"/verif/evidence/{pid}.json",
                "replay_cmd_template": "./check replay {path}",
                "engine": "farm-world",
                "level_claimed": {"category": lvl, "text": text, "design_ref": ref},
                "level_note": note,
                "technique": tech,
            })
    na = []
    for pid in ids:
        if pid in CHECKS:
            continue
        reason = NOT_APPLICABLE.get(pid) or NOT_YET.get(pid) or "check not built yet in this session (planned; see DESIGN.md section 6)"
        na.append({"property_id": pid, "reason": reason})
    man = {
        "version": 1,
        "setup_cmd": "/venv/bin/python -B -c \"import aquacrop, numpy, pandas\" && mkdir -p evidence replays",
        "hooks": {"guard": "AQUACROP_VERIF", "enable": "none - all seams are harness-side (module-attribute rebinding from /verif/dst/node.py); no hook commit exists in /repo",
                  "baseline_off_cmd": BASE_OFF, "source_commits": [], "add_only": True},
        "engines": [{"name": "farm-world", "path": "/verif/dst", "serves_properties": sorted(CHECKS),
                     "kind_free_text": "single-process deterministic simulator of AquaCropModel nodes: seeded scheduler of run_model calls, virtual wall clock, seeded weather/event environment, fault injection (abandon, in-step crash, restart, undelivered future weather), monitors between steps, ddmin + replay files"}],
        "checks": checks,
        "not_applicable": na,
        "notes": "VERIF_SEED selects the seed-derived half of every batch; VERIF_REPO points the checks at a scratch copy of the repository (default /repo); exit 2 = harness error (never a pass).",
    }
    with open(os.path.join(os.path.dirname(__file__), "MANIFEST.json"), "w") as f:
        json.dump(man, f, indent=1)
    print("checks:", len(checks), "not_applicable:", len(na))

if __name__ == "__main__":
    main()
