"""Command line of the verification machinery.

  check <ID> [--tier quick|thorough]     run the check for one property (exit 0/1/2)
  replay <path>                          re-run a replay file (exit 1 + REPRODUCED when the violation recurs)
  selftest-determinism [N]               same seed twice / other hash seed / other worker counts
  run-case <ID> <seed> [idx]             debug: generate and run one case in-process
"""
import json
import os
import sys

HERE = os.path.dirname(os.path.abspath(__file__))
sys.path.insert(0, os.path.dirname(HERE))


def main(argv):
    if not argv:
        print(__doc__)
        return 2
    cmd = argv[0]
    if cmd == "check":
        from dst import engine
        pid = argv[1].upper()
        tier = os.environ.get("VERIF_TIER", "quick")
        if "--tier" in argv:
            tier = argv[argv.index("--tier") + 1]
        seed = int(os.environ.get("VERIF_SEED", "0"))
        return engine.run_check(pid, tier=tier, seed=seed)
    if cmd == "replay":
        from dst import engine
        path = argv[1]
        rec, res, same = engine.replay_file(path)
        if "--quiet" not in argv:
            print(f"replay property={rec['property']} expected signature: {rec['signature']}")
            for v in res["violations"]:
                print(f"  violation: {v['sig']}: {v['msg']}")
            print(f"  status={res['status']} {res.get('reason', '')}")
        if same:
            print("REPRODUCED")
            print(f"VIOLATION property={rec['property']} replay={path}")
            return 1
        print("NOT-REPRODUCED")
        return 0
    if cmd == "run-case":
        import random
        from dst import engine
        pid = argv[1].upper()
        seed = int(argv[2])
        idx = int(argv[3]) if len(argv) > 3 else 0
        mod = engine.prop_module(pid)
        case = mod.gen_case(random.Random(seed), "quick", idx)
        case["run_seed"] = seed
        print(json.dumps(engine.summarise_case(case), default=str)[:3000])
        res = engine.exec_case(pid, case)
        print({k: v for k, v in res.items() if k not in ("states",)})
        return 0
    if cmd == "digests":
        from dst import selftest
        return selftest.digests_cmd(argv[1:])
    if cmd == "selftest-determinism":
        from dst import selftest
        return selftest.determinism(argv[1:])
    if cmd == "selftest-sensitivity":
        from dst import selftest
        return selftest.sensitivity(argv[1:])
    print(__doc__)
    return 2


if __name__ == "__main__":
    sys.exit(main(sys.argv[1:]))
