"""Per-day monitors (trajectory invariants) evaluated on DayRecords between steps.

Each monitor is `fn(ctx, rec) -> list[(sig, msg)]`.  `ctx` (RunContext) holds what the
harness knows independently of the code's own bookkeeping: the spec, profile arrays copied
at initialisation, the configured initial state, the weather it delivered.
"""
import math

import numpy as np
import pandas as pd

from .node import FI, GI


class PreconditionFailed(Exception):
    """the generated configuration is outside the validity domain (harness precondition, not a verdict)"""


class RunContext:
    def __init__(self, node):
        m = node.model
        self.node = node
        self.spec = node.spec
        ps = m._param_struct
        prof = ps.Soil.Profile
        self.dz = np.array(prof.dz, dtype=float, copy=True)
        self.dzsum = np.array(prof.dzsum, dtype=float, copy=True)
        self.zMid_model = np.array(prof.zMid, dtype=float, copy=True)
        # compartment centres from the geometry itself (running sum of thicknesses), not from the model's own zMid column
        self.zMid = np.cumsum(self.dz) - self.dz / 2
        self.th_s = np.array(prof.th_s, dtype=float, copy=True)
        self.th_fc = np.array(prof.th_fc, dtype=float, copy=True)
        self.th_wp = np.array(prof.th_wp, dtype=float, copy=True)
        self.th_dry = np.array(prof.th_dry, dtype=float, copy=True)
        self.layer = np.array(prof.Layer, dtype=int, copy=True)
        self.ncomp = len(self.dz)
        self.depth = float(self.dz.sum())
        self.th_init = np.array(m._init_cond.th, dtype=float, copy=True)
        self.ss_init = float(m._init_cond.surface_storage)
        if ((self.th_init < self.th_wp - 1e-9) | (self.th_init > self.th_s + 1e-9)).any():
            raise PreconditionFailed("initial water content outside [WP, SAT] of some compartment")
        if not ((self.th_dry < self.th_wp) & (self.th_wp < self.th_fc) & (self.th_fc < self.th_s)).all():
            raise PreconditionFailed("soil layer hydraulic values not ordered dry < wp < fc < sat")
        self.irr_method = int(self.spec["irr"]["method"])
        ikw = self.spec["irr"].get("kwargs") or {}
        self.app_eff = float(ikw.get("AppEff", 100.0))
        self.max_irr = float(ikw.get("MaxIrr", 25.0))
        self.max_irr_season = float(ikw.get("MaxIrrSeason", 10000.0))
        self.off_season = bool(self.spec.get("off_season"))
        self.field = _field(self.spec.get("field"))
        self.fallow = _field(self.spec.get("fallow_field"))
        clock = m._clock_struct
        self.planting = [pd.Timestamp(x) for x in clock.planting_dates]
        self.harvest = [pd.Timestamp(x) for x in clock.harvest_dates]
        self.has_gw = self.spec.get("gw") is not None and self.spec["gw"].get("water_table", "Y") == "Y"
        self.prev = None           # previous DayRecord
        self.season_first_seen = set()
        self.state = {}            # per-monitor scratch

    def storage(self, th):
        return float(1000.0 * np.dot(th, self.dz))

    def in_season(self, rec):
        """harness's own determination of 'growing season' for the day (dates + state flags before the step)"""
        s = rec.season
        if s < 0 or s >= len(self.planting):
            return False
        if not (self.planting[s] <= rec.date < self.harvest[s]):
            return False
        f = rec.flags0
        return (f["crop_mature"] is False) and (f["crop_dead"] is False)

    def mgmt(self, rec):
        return self.field if self.in_season(rec) else self.fallow

    def season_reset_day(self, rec):
        """True when this day is the first of a season reached by skipping the off-season"""
        p = self.prev
        return (p is not None and not self.off_season and rec.season > p.season)

    def crop(self, rec):
        ps = self.node.model._param_struct
        if rec.season >= 0:
            return ps.Seasonal_Crop_List[rec.season]
        return ps.Fallow_Crop


def _field(f):
    d = {"mulches": False, "bunds": False, "curve_number_adj": False, "sr_inhb": False, "mulch_pct": 50,
         "f_mulch": 0.5, "z_bund": 0.0, "bund_water": 0.0, "curve_number_adj_pct": 0}
    if f:
        d.update(f)
    d["z_bund_mm"] = d["z_bund"] * 1000
    d["has_bunds"] = bool(d["bunds"]) and d["z_bund_mm"] > 0.001
    return d


def fx(rec, col):
    return float(rec.flux[FI[col]])


def gr(rec, col):
    return float(rec.growth[GI[col]])


# ---------------------------------------------------------------------------------------------
# C01

def _process_ledger(ctx, rec):
    """[(process, discrepancy mm, signature, message)] for every process whose storage change differs from its report"""
    led = rec.ledger
    out = []
    if not led:
        return out
    pr = rec.proc_ret
    dp_drain = (pr.get("drainage") or {}).get("DeepPerc", 0.0) or 0.0
    for i in range(len(led) - 1):
        name, th_a, ss_a = led[i]
        _, th_b, ss_b = led[i + 1]
        d = (ctx.storage(th_b) + ss_b) - (ctx.storage(th_a) + ss_a)
        exp = 0.0
        tol_p = 1e-7
        if name == "pre_irrigation":
            exp = pr["pre_irrigation"]["PreIrr"]
        elif name == "drainage":
            exp = -pr["drainage"]["DeepPerc"]
        elif name == "infiltration":
            exp = pr["infiltration"]["Infl"] - (pr["infiltration"]["DeepPerc"] - dp_drain)
        elif name == "capillary_rise":
            exp = pr["capillary_rise"]["CR"]
            if exp > 0:
                tol_p += 0.05 * ctx.depth
        elif name == "soil_evaporation":
            exp = -pr["soil_evaporation"]["Es"]
        elif name == "transpiration":
            exp = -pr["transpiration"]["Tr"] + pr["transpiration"]["IrrNet"]
        elif name == "groundwater_inflow":
            exp = pr["groundwater_inflow"]["GwIn"]
        if not (abs(d - exp) <= tol_p):
            sig = f"C01:process-ledger:{name}"
            if name == "drainage" and d - exp < 0:
                # water vanished in drainage; distinguish the case "excess pushed up a profile that is
                # saturated all the way to the surface" (nowhere left to store it) from any other loss
                sat = th_b >= ctx.th_s - 1e-12
                k = 0
                while k < len(sat) and sat[k]:
                    k += 1
                if k >= 1:
                    sig += ":excess-dropped-at-saturated-surface"
            out.append((name, d - exp, sig,
                        f"day t={rec.t}: storage+ponded changed by {d:.9f} mm across {name}, which reports {exp:.9f} mm"))
    return out


def mon_c01(ctx, rec):
    out = []
    S0, S1 = ctx.storage(rec.th0), ctx.storage(rec.th1)
    irrnet = fx(rec, "IrrDay") if ctx.irr_method == 4 else 0.0
    cr = fx(rec, "CR")
    rhs = fx(rec, "Infl") + irrnet + cr + fx(rec, "GwIn") - fx(rec, "DeepPerc") - fx(rec, "Es") - fx(rec, "Tr")
    lhs = (S1 + rec.ss1) - (S0 + rec.ss0)
    tol = 1e-6 + (0.05 * ctx.depth if cr > 0 else 0.0)
    resid = lhs - rhs
    pl = _process_ledger(ctx, rec)
    for name, disc, sig, msg in pl:
        out.append((sig, msg))
    if not (abs(resid) <= tol) or not math.isfinite(resid):
        sig = "C01:daily-ledger"
        if pl and abs(sum(x[1] for x in pl) - resid) <= 1e-6 + (0.05 * ctx.depth if cr > 0 else 0.0):
            # the per-process ledger accounts for the whole residual: name the processes
            sig += "<=" + "+".join(sorted(set(x[2].split("C01:process-ledger:")[1] for x in pl)))
        out.append((sig, f"day t={rec.t} {rec.date.date()}: d(storage+ponded)={lhs:.9f} mm but fluxes sum to {rhs:.9f} mm (residual {resid:.3e}, tol {tol:.1e}); "
                    f"Infl={fx(rec,'Infl')} IrrNet={irrnet} CR={cr} GwIn={fx(rec,'GwIn')} DeepPerc={fx(rec,'DeepPerc')} Es={fx(rec,'Es')} Tr={fx(rec,'Tr')} ponded {rec.ss0}->{rec.ss1}"))
    ctx.state["c01_max_resid"] = max(ctx.state.get("c01_max_resid", 0.0), abs(resid) if math.isfinite(resid) else 0.0)
    # storage table row must show the state after the step
    if not np.array_equal(rec.storage[3:], rec.th1):
        out.append(("C01:storage-row", f"day t={rec.t}: water-storage row differs from the state after the step"))
    if float(rec.flux[FI["surface_storage"]]) != rec.ss1:
        out.append(("C01:ponding-row", f"day t={rec.t}: surface_storage column {rec.flux[FI['surface_storage']]} != state {rec.ss1}"))
    # carry-over
    p = ctx.prev
    if p is not None:
        if ctx.season_reset_day(rec):
            f = ctx.field
            ss_cfg = min(f["bund_water"], f["z_bund_mm"]) if f["has_bunds"] else 0.0
            if not np.array_equal(rec.th0, ctx.th_init):
                i = int(np.argmax(rec.th0 != ctx.th_init))
                out.append(("C01:reset-not-configured-initial", f"season {rec.season} starts (t={rec.t}) with th[{i}]={rec.th0[i]!r}, configured initial water content is {ctx.th_init[i]!r}"))
            if rec.ss0 != ss_cfg:
                out.append(("C01:reset-ponding", f"season {rec.season} starts (t={rec.t}) with ponded={rec.ss0}, configured initial ponding is {ss_cfg}"))
        else:
            if not np.array_equal(rec.th0, p.th1) or rec.ss0 != p.ss1:
                out.append(("C01:carry-over", f"state before step t={rec.t} differs from the state left by step t={p.t}"))
    if rec.ledger:
        pr = rec.proc_ret
        # the row repeats what the processes reported
        chk = [("DeepPerc", pr.get("infiltration", {}).get("DeepPerc")), ("CR", pr.get("capillary_rise", {}).get("CR")),
               ("GwIn", pr.get("groundwater_inflow", {}).get("GwIn")), ("Es", pr.get("soil_evaporation", {}).get("Es")),
               ("Tr", pr.get("transpiration", {}).get("Tr")), ("Infl", pr.get("infiltration", {}).get("Infl")),
               ("Runoff", pr.get("infiltration", {}).get("Runoff"))]
        for col, val in chk:
            if val is not None and fx(rec, col) != val and not (math.isnan(val) and math.isnan(fx(rec, col))):
                out.append((f"C01:row-vs-process:{col}", f"day t={rec.t}: column {col}={fx(rec, col)} but the process reported {val}"))
    return out


# ---------------------------------------------------------------------------------------------
# C02

def mon_c02(ctx, rec):
    out = []
    P = rec.wx[2]
    ins = ctx.in_season(rec)
    irr = fx(rec, "IrrDay") if ctx.irr_method != 4 else 0.0
    irr_eff = irr * ctx.app_eff / 100.0 if ins else 0.0
    infl, ro = fx(rec, "Infl"), fx(rec, "Runoff")
    supply = P + irr_eff
    if not (abs((infl + ro) - supply) <= 1e-9 * max(1.0, abs(supply))):
        out.append(("C02:partition", f"day t={rec.t}: rain {P} + effective irrigation {irr_eff} = {supply} but Infl {infl} + Runoff {ro} = {infl + ro}"))
    # signs are decided beyond floating-point rounding of the day's own amounts (Infl is reported as supply minus runoff)
    noise = 1e-9 * max(1.0, abs(supply) + rec.ss0)
    if ro < -noise:
        out.append(("C02:runoff-negative", f"day t={rec.t}: Runoff={ro}"))
    if ro > supply + rec.ss0 + 1e-9 * max(1.0, supply + rec.ss0):
        out.append(("C02:runoff-exceeds-supply", f"day t={rec.t}: Runoff={ro} > rain+irrigation+ponded = {supply + rec.ss0}"))
    mg = ctx.mgmt(rec)
    if infl < -noise:
        # ponded water may be released as runoff when the bunds that held it are gone: removed altogether, or replaced by
        # lower ones (in-season bunds 0.3 m, fallow bunds 0.05 m) - then only the water standing above the new bund height
        released = rec.ss0 if not mg["has_bunds"] else max(0.0, rec.ss0 - mg["z_bund_mm"])
        if released <= 0:
            out.append(("C02:negative-infiltration", f"day t={rec.t}: Infl={infl} with bunds={mg['has_bunds']} (height {mg['z_bund_mm']} mm) ponded_before={rec.ss0}"))
        elif infl < -released - 1e-9:
            out.append(("C02:negative-infiltration-exceeds-ponding", f"day t={rec.t}: Infl={infl} < -(ponded water released)={-released}"))
    if P == 0 and irr == 0 and rec.ss0 == 0 and (infl != 0 or ro != 0):
        out.append(("C02:something-from-nothing", f"day t={rec.t}: no rain, irrigation or ponding but Infl={infl} Runoff={ro}"))
    return out


# ---------------------------------------------------------------------------------------------
# C03

def mon_c03(ctx, rec):
    out = []
    th = rec.th1
    lo = th < ctx.th_dry - 1e-12
    hi = th > ctx.th_s + 1e-12
    if lo.any():
        i = int(np.argmax(lo))
        out.append(("C03:below-air-dry", f"day t={rec.t}: th[{i}]={th[i]!r} < air-dry {ctx.th_dry[i]!r}"))
    if hi.any():
        i = int(np.argmax(hi))
        out.append(("C03:above-saturation", f"day t={rec.t}: th[{i}]={th[i]!r} > saturation {ctx.th_s[i]!r}"))
    if not np.isfinite(th).all():
        out.append(("C03:non-finite-th", f"day t={rec.t}: non-finite water content"))
    mg = ctx.mgmt(rec)
    ss = rec.ss1
    if ss < 0:
        out.append(("C03:ponding-negative", f"day t={rec.t}: ponded={ss}"))
    if mg["has_bunds"]:
        if ss > mg["z_bund_mm"] + 1e-9:
            out.append(("C03:ponding-above-bund", f"day t={rec.t}: ponded={ss} > bund height {mg['z_bund_mm']} mm"))
    elif ss != 0:
        out.append(("C03:ponding-without-bunds", f"day t={rec.t}: ponded={ss} with no bunds configured for this period"))
    if fx(rec, "Wr") < 0:
        out.append(("C03:negative-root-zone-storage", f"day t={rec.t}: Wr={fx(rec, 'Wr')}"))
    return out


# ---------------------------------------------------------------------------------------------
# C04

def mon_c04(ctx, rec):
    out = []
    for col in ("IrrDay", "Runoff", "DeepPerc", "CR", "GwIn", "Es", "EsPot", "Tr", "TrPot"):
        v = fx(rec, col)
        lim = -1e-9   # a sign is decided beyond floating-point rounding (1e-9 mm; the statement's own scale for rounding is 1e-6 mm)
        if col == "IrrDay" and ctx.irr_method == 4:
            lim = -0.01 * ctx.ncomp
        if not (v >= lim):
            out.append((f"C04:negative:{col}", f"day t={rec.t} {rec.date.date()}: {col}={v!r}"))
    es, esp, tr, trp = fx(rec, "Es"), fx(rec, "EsPot"), fx(rec, "Tr"), fx(rec, "TrPot")
    if es > esp + 1e-9:
        out.append(("C04:Es>EsPot", f"day t={rec.t}: Es={es!r} > EsPot={esp!r}"))
    if tr > trp + 1e-9:
        out.append(("C04:Tr>TrPot", f"day t={rec.t}: Tr={tr!r} > TrPot={trp!r}"))
    if not ctx.in_season(rec):
        for col in ("Tr", "TrPot", "IrrDay"):
            if fx(rec, col) != 0:
                out.append((f"C04:off-season:{col}", f"day t={rec.t}: {col}={fx(rec, col)!r} outside a growing season"))
    return out


# ---------------------------------------------------------------------------------------------
# C05

def mon_c05(ctx, rec):
    out = []
    g = rec.growth
    ins = ctx.in_season(rec)
    if not np.isfinite(np.delete(g, [])).all():
        bad = [c for c in GI if not math.isfinite(g[GI[c]])]
        tag = ""
        if bad == ["FreshYield"] and not float(getattr(ctx.crop(rec), "YldWC", 0) or 0):
            tag = ":crop-without-YldWC"
        out.append(("C05:non-finite:" + ",".join(bad) + tag, f"day t={rec.t}: non-finite crop outputs {bad}"))
    st = ctx.state.setdefault("c05", {})
    if not ins:
        for col in ("canopy_cover", "biomass", "DryYield", "FreshYield", "dap"):
            if gr(rec, col) != 0:
                out.append((f"C05:off-season:{col}", f"day t={rec.t}: {col}={gr(rec, col)!r} outside a growing season"))
        st.clear()
        return out
    crop = ctx.crop(rec)
    CCx, Zmin, Zmax, HI0, dHI0 = float(crop.CCx), float(crop.Zmin), float(crop.Zmax), float(crop.HI0), float(crop.dHI0)
    Tb, Tu = float(crop.Tbase), float(crop.Tupp)
    cc, ccns = gr(rec, "canopy_cover"), gr(rec, "canopy_cover_ns")
    eps = 1e-12
    if cc < -eps or cc > CCx + eps:
        out.append(("C05:CC-out-of-range", f"day t={rec.t} dap={gr(rec,'dap')}: canopy_cover={cc!r} not in [0, CCx={CCx}]"))
    if cc > ccns + eps:
        out.append(("C05:CC>CC_ns", f"day t={rec.t} dap={gr(rec,'dap')}: canopy_cover={cc!r} > no-stress canopy {ccns!r}"))
    zr = gr(rec, "z_root")
    zgw = fx(rec, "z_gw") if ctx.has_gw else None
    if zr < Zmin - eps or zr > Zmax + eps:
        out.append(("C05:z_root-out-of-range", f"day t={rec.t} dap={gr(rec,'dap')}: z_root={zr!r} not in [Zmin={Zmin}, Zmax={Zmax}]"))
    if zgw is not None and zgw > 0 and zgw >= Zmin and zr > zgw + eps:
        out.append(("C05:z_root-below-water-table", f"day t={rec.t}: z_root={zr!r} below water table at {zgw!r}"))
    prev_season = st.get("season")
    if prev_season == rec.season:
        pz = st["z_root"]
        if zr < pz - eps:
            forced = zgw is not None and zgw > 0 and zgw < pz
            if not forced:
                out.append(("C05:z_root-shrinks", f"day t={rec.t} dap={gr(rec,'dap')}: z_root {pz!r} -> {zr!r} without a rising water table"))
        for col, sig in (("harvest_index", "HI-decreases"), ("biomass", "biomass-decreases"), ("gdd_cum", "gdd_cum-decreases")):
            if gr(rec, col) < st[col] - 1e-12 * max(1.0, abs(st[col])):
                out.append((f"C05:{sig}", f"day t={rec.t} dap={gr(rec,'dap')}: {col} {st[col]!r} -> {gr(rec, col)!r}"))
        gsum = st["gdd_sum"] + gr(rec, "gdd")
    else:
        gsum = gr(rec, "gdd")
    hi, hia = gr(rec, "harvest_index"), gr(rec, "harvest_index_adj")
    if hi > HI0 + eps:
        out.append(("C05:HI>HI0", f"day t={rec.t}: harvest_index={hi!r} > HI0={HI0}"))
    if hia > HI0 * (1 + dHI0 / 100.0) + 1e-12:
        out.append(("C05:HIadj>cap", f"day t={rec.t}: harvest_index_adj={hia!r} > HI0*(1+dHI0/100)={HI0 * (1 + dHI0 / 100.0)!r}"))
    gdd = gr(rec, "gdd")
    if gdd < -eps or gdd > (Tu - Tb) + 1e-9:
        out.append(("C05:gdd-out-of-range", f"day t={rec.t}: gdd={gdd!r} not in [0, Tupp-Tbase={Tu - Tb}]"))
    if abs(gsum - gr(rec, "gdd_cum")) > 1e-9 * max(1.0, abs(gsum)):
        out.append(("C05:gdd-sum", f"day t={rec.t}: sum of daily gdd {gsum!r} != gdd_cum {gr(rec, 'gdd_cum')!r}"))
    st.update({"season": rec.season, "z_root": zr, "harvest_index": hi, "biomass": gr(rec, "biomass"),
               "gdd_cum": gr(rec, "gdd_cum"), "gdd_sum": gsum})
    return out


# ---------------------------------------------------------------------------------------------
# state signature (reach measure)

def state_signature(ctx, rec):
    f = rec.flags1
    trp = fx(rec, "TrPot")
    ratio = 5 if trp <= 0 else min(4, int(4 * fx(rec, "Tr") / trp))
    return (int(ctx.in_season(rec)), int(f["growth_stage"] or 0), int(bool(f["germination"])), int(bool(f["premat_senes"])),
            int(bool(f["crop_dead"])), int(bool(f["wt_in_soil"])), int(rec.ss1 > 0), int(fx(rec, "Runoff") > 0),
            int(fx(rec, "DeepPerc") > 0), int(fx(rec, "CR") > 0), int(fx(rec, "IrrDay") > 0), int(bool(f["stage2"])), ratio)


def probes_of(ctx, rec, probes):
    """rare-condition counters"""
    def inc(k):
        probes[k] = probes.get(k, 0) + 1
    f = rec.flags1
    mg = ctx.mgmt(rec)
    if mg["has_bunds"] and rec.ss1 >= mg["z_bund_mm"] - 1e-9 and fx(rec, "Runoff") > 0:
        inc("bund_overtopping")
    if rec.ss0 > 0 and not mg["has_bunds"]:
        inc("bunds_removed_with_ponding")
    if fx(rec, "Runoff") > 0:
        inc("runoff_day")
    if rec.ss1 > 0:
        inc("ponded_day")
    if fx(rec, "DeepPerc") > 0:
        inc("deep_percolation_day")
    if fx(rec, "CR") > 0:
        inc("capillary_rise_day")
    if fx(rec, "GwIn") > 0:
        inc("groundwater_inflow_day")
    if f["crop_dead"]:
        inc("crop_dead_day")
    if f["premat_senes"]:
        inc("early_senescence_day")
    if f["stage2"]:
        inc("stage2_evaporation_day")
    if rec.wx[2] >= 80:
        inc("storm_day")
    if ctx.in_season(rec) and gr(rec, "canopy_cover") > 0.966:
        inc("closed_canopy_day")
    if ctx.in_season(rec) and f.get("yield_form"):
        crop = ctx.crop(rec)
        try:
            over = float(f["f_pre"]) * float(f["f_post"]) > 1 + float(crop.dHI0) / 100.0
            short = int(crop.CropType) == 3 and float(f["f_pol"]) * float(crop.HI0) < gr(rec, "harvest_index") - 1e-12
        except (TypeError, ValueError):
            over = short = False
        if over:
            inc("hi_multiplier_over_cap_day")
        if short:
            inc("pollination_limited_branch_day")
        if over and short:
            inc("hi_multiplier_over_cap_in_pollination_limited_branch_day")
    pr = rec.proc_ret.get("pre_irrigation")
    if pr and pr["PreIrr"] and pr["PreIrr"] > 0:
        inc("pre_irrigation_positive")
    if (rec.th1 >= ctx.th_s - 1e-12).any():
        inc("saturated_compartment_day")
    if (rec.th1 <= ctx.th_dry + 1e-9).any():
        inc("air_dry_compartment_day")
    if ctx.season_reset_day(rec):
        inc("season_reset")


# ---------------------------------------------------------------------------------------------
# C06 (per-day part + history part)

def _ulp_eq(a, b):
    if a == b:
        return True
    if not (math.isfinite(a) and math.isfinite(b)):
        return (a != a and b != b) or a == b
    return abs(a - b) <= 4e-16 * max(abs(a), abs(b))


_MAUNA = {}


def co2_conc_ref(spec, year, start_year):
    """concentration the documentation promises for a season planted in `year`: the user's constant, else the record (the
    user's table or the Mauna Loa file shipped with the package) interpolated linearly in time, held at its ends; a constant
    requested without a value is the record's value of the first simulated year"""
    c = spec.get("co2") or {}
    if c.get("series") is not None:
        ys = [float(y) for y, _ in c["series"]]
        ps = [float(p) for _, p in c["series"]]
    else:
        if "t" not in _MAUNA:
            import os
            import aquacrop
            rows = []
            with open(os.path.join(os.path.dirname(aquacrop.__file__), "data", "MaunaLoaCO2.txt")) as f:
                for line in f:
                    parts = line.split()
                    try:
                        rows.append((float(parts[0]), float(parts[1])))
                    except (ValueError, IndexError):
                        continue
            _MAUNA["t"] = rows
        ys = [r[0] for r in _MAUNA["t"]]
        ps = [r[1] for r in _MAUNA["t"]]
    if c.get("constant_conc"):
        if float(c.get("current_concentration", 0.0)) > 0:
            return float(c["current_concentration"])
        year = start_year
    return float(np.interp(float(year), ys, ps))


def fco2_ref(crop, conc, ref=369.41):
    """CO2 adjustment of the water productivity (AquaCrop reference manual v7, section 3.11.2), written from the manual"""
    bsted, bface, fsink, WP = float(crop.bsted), float(crop.bface), float(crop.fsink), float(crop.WP)
    if conc <= ref:
        fw = 0.0
    elif conc >= 550:
        fw = 1.0
    else:
        fw = 1 - (550 - conc) / (550 - ref)
    f_old = (conc / ref) / (1 + (conc - ref) * ((1 - fw) * bsted + fw * (bsted * fsink + bface * (1 - fsink))))
    if conc <= ref:
        f = f_old
    else:
        if conc >= 2000:
            f_new = 1.58
        else:
            shape = -4.61824 - 3.43831 * fsink - 5.32587 * fsink * fsink
            rel = (conc - ref) / (2000 - ref)
            f_new = 1 + 0.58 * ((math.exp(rel * shape) - 1) / (math.exp(shape) - 1))
        f = f_old if (conc <= 550 and f_old < f_new) else f_new
    ftype = 0.0 if WP >= 40 else (1.0 if WP <= 20 else (40 - WP) / 20.0)
    return 1 + ftype * (f - 1)


def mon_c06(ctx, rec):
    out = []
    st = ctx.state.setdefault("c06", {"season": None, "B": 0.0, "irr": {}, "harvest": {}, "last": {}, "started": set()})
    # "in season" as the daily tables say it (days after planting > 0): the property is about the summary agreeing with them
    ins = gr(rec, "dap") > 0
    if not ins:
        st["season"] = None
        return out
    k = rec.season
    st["started"].add(k)
    crop = ctx.crop(rec)
    WP, WPy, fCO2, YldWC = float(crop.WP), float(crop.WPy), float(crop.fCO2), float(crop.YldWC or 0)
    if st["season"] != k:
        # "the crop's CO2-adjusted water productivity": the adjustment belongs to the concentration of the season's planting year
        year = ctx.planting[k].year
        conc = co2_conc_ref(ctx.spec, year, pd.Timestamp(ctx.node.clock.simulation_start_date).year)
        want = fco2_ref(crop, conc)
        if not abs(fCO2 - want) <= 1e-12 * max(1.0, abs(want)):
            out.append(("C06:co2-adjustment", f"day t={rec.t} season {k} planted {year}: the season crop's fCO2={fCO2!r}, the adjustment for {conc!r} ppm is {want!r}"))
    B, Bns = gr(rec, "biomass"), gr(rec, "biomass_ns")
    prevB = st["B"] if st["season"] == k else 0.0
    dB = B - prevB
    et0 = rec.wx[3]
    base = WP * fCO2 * fx(rec, "Tr") / et0
    f_lo, f_hi = min(1.0, WPy / 100.0), max(1.0, WPy / 100.0)
    lo, hi = min(f_lo * base, f_hi * base), max(f_lo * base, f_hi * base)
    tol = 1e-9 * max(1.0, abs(B), abs(base))
    if not (lo - tol <= dB <= hi + tol):
        out.append(("C06:biomass-gain", f"day t={rec.t} dap={gr(rec,'dap')}: biomass gain {dB!r} outside [{lo!r}, {hi!r}] = [min(1,WPy/100), max(1,WPy/100)] x WP*fCO2*Tr/ET0 (WP={WP}, WPy={WPy}, fCO2={fCO2!r}, Tr={fx(rec,'Tr')!r}, ET0={et0})"))
    dy, fy, yp = gr(rec, "DryYield"), gr(rec, "FreshYield"), gr(rec, "YieldPot")
    if not _ulp_eq(dy, (B / 100.0) * gr(rec, "harvest_index_adj")):
        out.append(("C06:dry-yield", f"day t={rec.t}: DryYield={dy!r} != B/100*HI_adj={(B / 100.0) * gr(rec, 'harvest_index_adj')!r}"))
    if YldWC > 0 and not _ulp_eq(fy, dy / (YldWC / 100.0)):
        out.append(("C06:fresh-yield", f"day t={rec.t}: FreshYield={fy!r} != DryYield/(YldWC/100)={dy / (YldWC / 100.0)!r}"))
    if not _ulp_eq(yp, (Bns / 100.0) * gr(rec, "harvest_index")):
        out.append(("C06:potential-yield", f"day t={rec.t}: YieldPot={yp!r} != B_ns/100*HI={(Bns / 100.0) * gr(rec, 'harvest_index')!r}"))
    st["season"], st["B"] = k, B
    st["irr"][k] = st["irr"].get(k, 0.0) + fx(rec, "IrrDay")
    # the season's last in-season day so far: its harvest day if the season reaches harvest
    st["last"][k] = {"t": rec.t, "date": (rec.date + pd.Timedelta(days=1)).strftime("%Y-%m-%d"), "dry": dy, "fresh": fy, "pot": yp}
    f1 = rec.flags1
    ended = bool(f1["crop_mature"]) or bool(f1["crop_dead"]) or (rec.date + pd.Timedelta(days=1) >= ctx.harvest[k])
    if ended:
        st["harvest"][k] = True
    return out


def final_c06(ctx, tables):
    """history check of the seasonal summary against what the world observed day by day"""
    out = []
    st = ctx.state.get("c06") or {"harvest": {}, "started": set()}
    rows = tables["final"] or []
    exp = st["harvest"]
    seen = [r[1] for r in rows]  # Season column
    if seen != sorted(exp):
        out.append(("C06:summary-rows", f"summary has rows for seasons {seen}, seasons that reached harvest: {sorted(exp)} (seasons started: {sorted(st['started'])})"))
        return out
    for r in rows:
        idx, season, cname, hdate, hstep, dry, fresh, pot, irr = r
        e = dict(st["last"][season], irr=st["irr"][season])
        if idx != season:
            out.append(("C06:summary-index", f"summary row index {idx} != season {season}"))
        if hstep != e["t"]:
            out.append(("C06:summary-step", f"season {season}: harvest step {hstep} != step of the season's last in-season day {e['t']} (the harvest day)"))
        if hdate != e["date"]:
            out.append(("C06:summary-date", f"season {season}: harvest date {hdate} != day after the harvest step {e['date']}"))
        for name, a, b in (("dry", dry, e["dry"]), ("fresh", fresh, e["fresh"]), ("potential", pot, e["pot"])):
            if not (a == b or (a != a and b != b)):
                out.append((f"C06:summary-{name}-yield", f"season {season}: summary {name} yield {a!r} != daily value on the harvest day {b!r}"))
        if not (abs(irr - e["irr"]) <= 1e-9 * max(1.0, abs(e["irr"]))):
            out.append(("C06:summary-irrigation", f"season {season}: seasonal irrigation {irr!r} != sum of daily IrrDay {e['irr']!r}"))
    return out


# ---------------------------------------------------------------------------------------------
# C07 (recorded per day, decided over the history)

def own_gdd(method, tupp, tbase, tmax, tmin):
    """independent implementation of the three documented degree-day methods"""
    if method == 1:
        tm = (tmax + tmin) / 2
        tm = min(max(tm, tbase), tupp)
    elif method == 2:
        a = min(max(tmax, tbase), tupp)
        b = min(max(tmin, tbase), tupp)
        tm = (a + b) / 2
    else:
        a = min(max(tmax, tbase), tupp)
        b = min(tmin, tupp)
        tm = max((a + b) / 2, tbase)
    return tm - tbase


def mon_c07(ctx, rec):
    days = ctx.state.setdefault("c07_days", [])
    crop = ctx.crop(rec) if rec.season >= 0 else None
    days.append({
        "t": rec.t, "date": rec.date, "season": rec.season, "dap": gr(rec, "dap"),
        "rows_t": (float(rec.flux[0]), float(rec.growth[0]), float(rec.storage[0])),
        "rows_dap": (float(rec.flux[FI["dap"]]), float(rec.storage[2])),
        "mature": bool(rec.flags1["crop_mature"]), "dead": bool(rec.flags1["crop_dead"]),
        "tmin": rec.wx[0], "tmax": rec.wx[1], "gdd_cum": gr(rec, "gdd_cum"),
        "cal": (int(crop.CalendarType), float(crop.Maturity), int(crop.GDDmethod), float(crop.Tupp), float(crop.Tbase)) if crop is not None else None,
    })
    return []


def final_c07(ctx, node, spec):
    import datetime as _dt
    from .gen import planting_dates
    from .spec import parse_date
    out = []

    def V(sig, msg):
        if not any(s == sig for s, _ in out):
            out.append((sig, msg))

    days = ctx.state.get("c07_days", [])
    hv = node.finish_checks
    if len(hv) != len(days):
        V("C07:harness", f"harness: {len(days)} days but {len(hv)} termination checks")
        return out
    start, end = parse_date(spec["start"]), parse_date(spec["end"])
    off = bool(spec.get("off_season"))
    # --- scheduled seasons (independent date arithmetic): planting dates with start <= P < end
    ref_P = [p for p in planting_dates(spec) if p < end]
    code_P = [pd.Timestamp(x).date() for x in ctx.planting]
    # the statement fixes where seasons begin (consecutive years, from the first planting date on or
    # after the start); how many seasons are scheduled before the end date is the model's choice
    # ("the last scheduled season"), so the model's list must be a prefix of the reference list
    all_P = planting_dates(spec)
    if code_P != all_P[:len(code_P)] or (len(code_P) == 0):
        V("C07:scheduled-plantings", f"model schedules plantings {[str(x) for x in code_P]}; window {start}..{end} with planting {spec['crop']['planting_date']}: consecutive planting dates from the first on/after the start are {[str(x) for x in all_P]}")
        return out
    ref_P = code_P
    nseas = len(ref_P)
    if not days:
        V("C07:no-days", "no day was simulated")
        return out
    if days[0]["date"].date() != start:
        V("C07:first-day", f"first simulated day {days[0]['date'].date()} != start {start}")
    harvested = {}      # season -> index of harvest day
    gsum = {}
    prev = None
    for i, d in enumerate(days):
        date = d["date"].date()
        if d["t"] != (date - start).days or any(x != d["t"] for x in d["rows_t"]):
            V("C07:row-index", f"day {date}: clock step {d['t']}, table rows carry {d['rows_t']}, expected {(date - start).days}")
        if prev is not None:
            pdte = prev["date"].date()
            if date <= pdte:
                V("C07:order", f"day {date} simulated after {pdte}")
            ph = hv[i - 1]["harvest_flag"]
            pk = prev["season"]
            if ph and not off and pk >= 0:
                if pk + 1 < nseas:
                    if date != ref_P[pk + 1]:
                        V("C07:jump", f"after harvest on {pdte} (season {pk}) the run continues on {date}, expected next planting date {ref_P[pk + 1]}")
                else:
                    V("C07:continues-after-last-harvest", f"run continues on {date} after the last scheduled season was harvested on {pdte}")
            else:
                if date != pdte + _dt.timedelta(days=1):
                    V("C07:skip", f"day after {pdte} is {date} (no harvest with skipped off-season in between)")
                if ph and pk == nseas - 1:
                    V("C07:continues-after-last-harvest", f"run continues on {date} after the last scheduled season was harvested on {pdte}")
        # --- which season (reference) is this day in?
        k = None
        for j in range(nseas):
            if ref_P[j] <= date and (j + 1 >= nseas or date < ref_P[j + 1]):
                k = j
        in_ref = k is not None and k not in harvested and date < pd.Timestamp(ctx.harvest[k]).date()
        # the code's season counter must name the same season from its planting date on
        if k is not None and d["season"] != k:
            V("C07:season-counter", f"day {date}: season counter {d['season']}, reference season {k}")
        if k is None and d["season"] != -1:
            V("C07:season-counter", f"day {date}: season counter {d['season']} before the first planting date")
        dap_ref = (date - ref_P[k]).days + 1 if in_ref else 0
        if d["dap"] != dap_ref or any(x != dap_ref for x in d["rows_dap"]):
            V("C07:dap", f"day {date}: dap column {d['dap']} (other tables {d['rows_dap']}), reference {dap_ref} (season {k})")
        h = hv[i]["harvest_flag"]
        if in_ref:
            cal, mat, gm, tu, tb = d["cal"]
            if cal == 1:
                mature_ref, undec = dap_ref >= mat, False
            else:
                g = gsum.get(k, 0.0) + own_gdd(gm, tu, tb, d["tmax"], d["tmin"])
                gsum[k] = g
                mature_ref, undec = g >= mat, abs(g - mat) <= 1e-6
                if undec and abs(d["gdd_cum"] - g) <= 1e-6:
                    # the independent sum lands on the threshold within rounding: the sum the daily table reports for this
                    # day (C05 ties it to the daily increments) decides whether maturity "is reached"
                    mature_ref, undec = d["gdd_cum"] >= mat, False
            latest = date + _dt.timedelta(days=1) == pd.Timestamp(ctx.harvest[k]).date()
            if h:
                harvested[k] = i
                if not mature_ref and not undec and not d["dead"] and not latest:
                    V("C07:early-harvest", f"season {k} ends on {date} (dap {dap_ref}) before maturity, crop not dead, latest harvest date {pd.Timestamp(ctx.harvest[k]).date()} not reached")
            else:
                if mature_ref and not undec:
                    V("C07:late-harvest", f"season {k}: maturity reached on {date} (dap {dap_ref}) but the season did not end")
                if latest:
                    V("C07:late-harvest", f"season {k}: latest harvest date reached on {date} but the season did not end")
                if d["dead"]:
                    V("C07:late-harvest", f"season {k}: crop dead on {date} but the season did not end")
        elif h and (k is None or k not in harvested):
            V("C07:harvest-outside-season", f"harvest flagged on {date} outside any season")
        prev = d
    # --- termination
    last = days[-1]
    ldate = last["date"].date()
    fin = bool(node.finished)
    ended_by_harvest = hv[-1]["harvest_flag"] and last["season"] == nseas - 1
    ended_by_date = ldate + _dt.timedelta(days=1) == end
    if not fin:
        V("C07:not-finished", "run stopped without reporting finished")
    elif not (ended_by_harvest or ended_by_date):
        V("C07:early-termination", f"run terminated after {ldate}: not the last scheduled harvest and not the day before the end date {end}")
    return out


# ---------------------------------------------------------------------------------------------
# C13 irrigation contracts: reference model per strategy

def _root_zone(ctx, th, z_root, zmin):
    """independent integration (no per-term rounding): WrAct, WrFC, WrWP over the root zone"""
    rootdepth = round(max(z_root, zmin), 2)
    act = fc = wp = 0.0
    for i in range(ctx.ncomp):
        top = ctx.dzsum[i] - ctx.dz[i]
        if top >= rootdepth and i > 0 and ctx.dzsum[i - 1] >= rootdepth:
            break
        f = 1.0
        if ctx.dzsum[i] > rootdepth:
            f = 1 - ((ctx.dzsum[i] - rootdepth) / ctx.dz[i])
        act += f * 1000 * th[i] * ctx.dz[i]
        fc += f * 1000 * ctx.th_fc[i] * ctx.dz[i]
        wp += f * 1000 * ctx.th_wp[i] * ctx.dz[i]
        if ctx.dzsum[i] >= rootdepth:
            break
    return rootdepth, act, fc, wp


def mon_c13(ctx, rec):
    out = []
    st = ctx.state.setdefault("c13", {"season": None, "cum": 0.0, "sched": None, "undecidable": 0, "decided": 0, "irrigated": 0, "cap_bound": 0})
    spec = ctx.spec
    m = ctx.irr_method
    ikw = spec["irr"].get("kwargs") or {}
    ins = ctx.in_season(rec)
    irrday = fx(rec, "IrrDay")
    ret = rec.proc_ret.get("irrigation") or {}
    irr_surface = ret.get("Irr", 0.0) or 0.0
    if not ins:
        if irrday != 0 or irr_surface != 0:
            out.append(("C13:irrigation-outside-season", f"day t={rec.t} {rec.date.date()}: IrrDay={irrday!r} surface application={irr_surface!r} outside a growing season"))
        st["season"] = None
        return out
    if st["season"] != rec.season:
        st["season"], st["cum"] = rec.season, 0.0
    eps = 1e-9
    tolmm = 0.02 * ctx.ncomp
    max_irr, cap = ctx.max_irr, ctx.max_irr_season
    room = max(0.0, cap - st["cum"])
    if m == 0:
        if irrday != 0:
            out.append(("C13:rainfed-irrigates", f"day t={rec.t}: IrrDay={irrday!r} under the rainfed strategy"))
    elif m == 4:
        if irr_surface != 0:
            out.append(("C13:net-mode-surface-application", f"day t={rec.t}: surface application {irr_surface!r} in net-irrigation mode"))
        if irrday < -0.01 * ctx.ncomp:
            out.append(("C13:net-requirement-negative", f"day t={rec.t}: net irrigation requirement {irrday!r}"))
    else:
        if irrday != irr_surface:
            out.append(("C13:row-vs-decision", f"day t={rec.t}: IrrDay={irrday!r} but the irrigation decision returned {irr_surface!r}"))
        if irrday > max_irr + eps:
            out.append(("C13:exceeds-daily-maximum", f"day t={rec.t}: IrrDay={irrday!r} > MaxIrr={max_irr}"))
        if st["cum"] + irrday > cap + 1e-9 * max(1.0, cap):
            out.append(("C13:exceeds-seasonal-maximum", f"day t={rec.t}: season total {st['cum'] + irrday!r} > MaxIrrSeason={cap}"))
        if irrday < 0:
            out.append(("C13:negative-irrigation", f"day t={rec.t}: IrrDay={irrday!r}"))
        dap = int(gr(rec, "dap"))
        if m == 2:
            k = int(ikw.get("IrrInterval", 3))
            if irrday > 0 and (dap - 1) % k != 0:
                out.append(("C13:interval-off-schedule", f"day t={rec.t} dap={dap}: IrrDay={irrday!r} but interval is {k} days (irrigation days are 1, 1+k, ...)"))
            st["decided"] += 1
        elif m == 3:
            if st["sched"] is None:
                st["sched"] = {}
                for d, x in (spec["irr"].get("schedule") or []):
                    st["sched"][pd.Timestamp(d.replace("/", "-"))] = float(x)
            want = min(max_irr, st["sched"].get(rec.date, 0.0))
            want = min(want, room)
            if abs(irrday - want) > eps:
                out.append(("C13:schedule-mismatch", f"day t={rec.t} {rec.date.date()}: IrrDay={irrday!r}, scheduled depth {st['sched'].get(rec.date, 0.0)} capped by MaxIrr={max_irr} and the seasonal room {room!r} gives {want!r}"))
            st["decided"] += 1
        elif m == 5:
            depth = ctx.state.get("depth_in_force", float(ikw.get("depth", 0.0)))
            want = min(max(0.0, min(max_irr, depth)), room)
            if abs(irrday - want) > eps:
                out.append(("C13:constant-depth-mismatch", f"day t={rec.t}: IrrDay={irrday!r}, depth in force {depth} capped by MaxIrr={max_irr} and the seasonal room {room!r} gives {want!r}"))
            st["decided"] += 1
        elif m == 1 and rec.irr is not None:
            cap_i = rec.irr
            crop = ctx.crop(rec)
            rootdepth, act, fc, wp = _root_zone(ctx, cap_i["th"], cap_i["z_root"], float(crop.Zmin))
            taw = max(fc - wp, 0.0)
            dr = min(fc - act, taw)
            abv = (act - fc) if act > fc else 0.0
            runoff = (rec.proc_ret.get("rainfall_partition") or {}).get("Runoff", 0.0) or 0.0
            depl = dr + cap_i["t_pot"] + cap_i["e_pot"] - rec.wx[2] + runoff - abv
            smt = [float(x) for x in ikw.get("SMT", [100] * 4)]
            # the growth stage, recomputed from the property's wording (stages delimited by 10 % canopy cover, maximum canopy
            # and senescence on the crop's development clock, which stops while development is delayed) - not read from the
            # model's own stage variable.  The decision of day d is taken before the day's development is known, so the
            # stage at the end of day d-1 and the stage at the end of day d are both admissible.
            def _stage(tadj):
                if tadj <= float(crop.Canopy10Pct):
                    return 1
                if tadj <= float(crop.MaxCanopy):
                    return 2
                if tadj <= float(crop.Senescence):
                    return 3
                return 4
            dcd, dgd = rec.delayed1
            t_today = (dap - dcd) if int(crop.CalendarType) == 1 else (gr(rec, "gdd_cum") - dgd)
            g1 = _stage(t_today)
            g0 = 1 if (dap == 1 or st.get("t_prev") is None or st.get("t_prev_season") != rec.season) else _stage(st["t_prev"])
            st["t_prev"], st["t_prev_season"] = t_today, rec.season
            effadj = ((100 - ctx.app_eff) + 100) / 100.0
            if taw <= 0:
                st["undecidable"] += 1
            else:
                decisions = set()
                undec = False
                for g in {g0, g1}:
                    thr = 1 - smt[max(1, g) - 1] / 100.0
                    margin = depl - thr * taw
                    if abs(margin) <= tolmm:
                        undec = True
                    decisions.add(margin > 0)
                if undec or len(decisions) > 1:
                    st["undecidable"] += 1
                else:
                    st["decided"] += 1
                    should = decisions.pop()
                    want = min(max_irr, max(0.0, depl) * effadj) if should else 0.0
                    want_c = min(want, room)
                    if should and want_c > tolmm * effadj and irrday <= 0:
                        out.append(("C13:threshold-missed", f"day t={rec.t} dap={dap}: estimated depletion {depl:.3f} mm of TAW {taw:.3f} exceeds the stage-{g0} allowable {(1 - smt[max(1, g0) - 1] / 100.0) * taw:.3f} but nothing was applied"))
                    elif (not should) and irrday > 0:
                        out.append(("C13:threshold-spurious", f"day t={rec.t} dap={dap}: IrrDay={irrday!r} although estimated depletion {depl:.3f} mm of TAW {taw:.3f} is below the stage-{g0} allowable {(1 - smt[max(1, g0) - 1] / 100.0) * taw:.3f}"))
                    elif should and abs(irrday - want_c) > tolmm * effadj + eps:
                        out.append(("C13:threshold-amount", f"day t={rec.t} dap={dap}: IrrDay={irrday!r}, refill of depletion {depl:.3f} mm adjusted for efficiency and caps is {want_c!r}"))
        if irrday > 0:
            st["irrigated"] += 1
        if room < max_irr and irrday > 0 and abs(irrday - room) < 1e-9:
            st["cap_bound"] += 1
        st["cum"] += irrday
    return out


# ---------------------------------------------------------------------------------------------
# C19 shallow groundwater

def gw_series_ref(spec, date):
    """independent model of the daily water-table depth: hold constant from each observation, or interpolate linearly in time"""
    g = spec["gw"]
    obs = sorted((pd.Timestamp(d[:4] + "-" + d[4:6] + "-" + d[6:8]), float(v)) for d, v in zip(g["dates"], g["values"]))
    if len(obs) == 1:
        return obs[0][1]
    if g.get("method", "Constant") == "Constant":
        val = obs[0][1]
        for d, v in obs:
            if d <= date:
                val = v
        return val
    # Variable
    if date <= obs[0][0]:
        return obs[0][1] if date == obs[0][0] else float("nan")
    for (d0, v0), (d1, v1) in zip(obs, obs[1:]):
        if d0 <= date <= d1:
            span = (d1 - d0).days
            return v0 + (v1 - v0) * ((date - d0).days / span) if span else v1
    return obs[-1][1]


def _xmax(fc):
    if fc <= 0.1:
        return 1.0
    if fc >= 0.3:
        return 2.0
    pF = 2 + 0.3 * (fc - 0.1) / 0.2
    return (10 ** pF) / 100.0


def mon_c19(ctx, rec):
    out = []
    st = ctx.state.setdefault("c19", {"cr_days": 0, "table_in_soil_days": 0, "raised": 0})
    if not ctx.has_gw:
        if fx(rec, "CR") != 0 or fx(rec, "GwIn") != 0:
            out.append(("C19:flux-without-table", f"day t={rec.t}: CR={fx(rec, 'CR')!r} GwIn={fx(rec, 'GwIn')!r} without a water table"))
        return out
    zgw = fx(rec, "z_gw")
    ref = gw_series_ref(ctx.spec, rec.date)
    if not (abs(zgw - ref) <= 1e-9 or (zgw != zgw and ref != ref)):
        out.append(("C19:table-depth-series", f"day t={rec.t} {rec.date.date()}: z_gw={zgw!r}, configured observations ({ctx.spec['gw'].get('method')}) give {ref!r}"))
        return out
    cg = rec.proc_ret.get("check_groundwater_table")
    if cg is not None:
        adj = cg["th_fc_Adj"]
        lo = adj < ctx.th_fc - 1e-12
        hi = adj > ctx.th_s + 1e-12
        if lo.any() or hi.any():
            i = int(np.argmax(lo | hi))
            out.append(("C19:adjusted-fc-out-of-range", f"day t={rec.t}: adjusted field capacity[{i}]={adj[i]!r} not in [fc={ctx.th_fc[i]}, sat={ctx.th_s[i]}] (table at {zgw})"))
        stale = not np.allclose(ctx.zMid, ctx.zMid_model)
        for i in range(ctx.ncomp):
            if zgw - ctx.zMid[i] >= _xmax(ctx.th_fc[i]) + 1e-9 and adj[i] != ctx.th_fc[i]:
                tag = ""
                if stale and not (zgw - ctx.zMid_model[i] >= _xmax(ctx.th_fc[i]) + 1e-9):
                    tag = ":stale-mid-depths-after-deepening"
                out.append(("C19:adjusted-fc-far-table" + tag, f"day t={rec.t}: compartment {i} (centre {ctx.zMid[i]:.3f} m; the model's own mid-depth column says {ctx.zMid_model[i]:.3f}) is {zgw - ctx.zMid[i]:.3f} m above the table but its adjusted field capacity {adj[i]!r} != fc {ctx.th_fc[i]!r}"))
                break
    # "centre below the table": strictly, beyond the rounding of the centre's own arithmetic (a table exactly at a centre obliges
    # nothing); "saturated": equal to saturation within floating-point rounding of a water content (1e-9 m3/m3)
    below = ctx.zMid > zgw + 1e-9
    if (ctx.zMid >= zgw).any():
        st["table_in_soil_days"] += 1
    if below.any():
        unsat = np.abs(rec.th1 - ctx.th_s) > 1e-9
        bad = below & unsat
        if bad.any():
            i = int(np.argmax(bad))
            tag = ""
            if not np.allclose(ctx.zMid, ctx.zMid_model) and not ((ctx.zMid_model > zgw + 1e-9) & unsat).any():
                # holds with the model's own (stale) mid-depth column, fails with the centres the geometry implies
                tag = ":stale-mid-depths-after-deepening"
            out.append(("C19:below-table-not-saturated" + tag, f"day t={rec.t}: compartment {i} (centre {ctx.zMid[i]:.3f} m; the model's own mid-depth column says {ctx.zMid_model[i]:.3f}) lies below the table at {zgw} m but ends the day at th={rec.th1[i]!r}, saturation {ctx.th_s[i]!r}"))
    # capillary rise: compartments it raised must not exceed the adjusted field capacity (+ the 1e-4 rounding quantum)
    led = rec.ledger
    if led and cg is not None:
        for j in range(len(led) - 1):
            if led[j][0] == "capillary_rise":
                a, b = led[j][1], led[j + 1][1]
                raised = b > a
                if raised.any():
                    st["raised"] += int(raised.sum())
                    over = raised & (b > cg["th_fc_Adj"] + 1e-4 + 1e-12)
                    if over.any():
                        i = int(np.argmax(over))
                        out.append(("C19:capillary-rise-above-adjusted-fc", f"day t={rec.t}: capillary rise lifted compartment {i} to {b[i]!r}, adjusted field capacity {cg['th_fc_Adj'][i]!r}"))
                changed_nonraise = (b < a)
                if changed_nonraise.any():
                    out.append(("C19:capillary-rise-removes-water", f"day t={rec.t}: capillary rise lowered a compartment's water content"))
    if fx(rec, "CR") > 0:
        st["cr_days"] += 1
    return out
