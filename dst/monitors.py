"""Per-day monitors (trajectory invariants) evaluated on DayRecords between steps.

Each monitor is `fn(ctx, rec) -> list[(sig, msg)]`.  `ctx` (RunContext) holds what the
harness knows independently of the code's own bookkeeping: the spec, profile arrays copied
at initialisation, the configured initial state, the weather it delivered.
"""
import math

import numpy as np
import pandas as pd

from .node import FI, GI


class PreconditionFailed(Exception):
    """the generated configuration is outside the validity domain (harness precondition, not a verdict)"""


class RunContext:
    def __init__(self, node):
        m = node.model
        self.node = node
        self.spec = node.spec
        ps = m._param_struct
        prof = ps.Soil.Profile
        self.dz = np.array(prof.dz, dtype=float, copy=True)
        self.dzsum = np.array(prof.dzsum, dtype=float, copy=True)
        self.zMid = np.array(prof.zMid, dtype=float, copy=True)
        self.th_s = np.array(prof.th_s, dtype=float, copy=True)
        self.th_fc = np.array(prof.th_fc, dtype=float, copy=True)
        self.th_wp = np.array(prof.th_wp, dtype=float, copy=True)
        self.th_dry = np.array(prof.th_dry, dtype=float, copy=True)
        self.layer = np.array(prof.Layer, dtype=int, copy=True)
        self.ncomp = len(self.dz)
        self.depth = float(self.dz.sum())
        self.th_init = np.array(m._init_cond.th, dtype=float, copy=True)
        self.ss_init = float(m._init_cond.surface_storage)
        if ((self.th_init < self.th_wp - 1e-9) | (self.th_init > self.th_s + 1e-9)).any():
            raise PreconditionFailed("initial water content outside [WP, SAT] of some compartment")
        if not ((self.th_dry < self.th_wp) & (self.th_wp < self.th_fc) & (self.th_fc < self.th_s)).all():
            raise PreconditionFailed("soil layer hydraulic values not ordered dry < wp < fc < sat")
        self.irr_method = int(self.spec["irr"]["method"])
        ikw = self.spec["irr"].get("kwargs") or {}
        self.app_eff = float(ikw.get("AppEff", 100.0))
        self.max_irr = float(ikw.get("MaxIrr", 25.0))
        self.max_irr_season = float(ikw.get("MaxIrrSeason", 10000.0))
        self.off_season = bool(self.spec.get("off_season"))
        self.field = _field(self.spec.get("field"))
        self.fallow = _field(self.spec.get("fallow_field"))
        clock = m._clock_struct
        self.planting = [pd.Timestamp(x) for x in clock.planting_dates]
        self.harvest = [pd.Timestamp(x) for x in clock.harvest_dates]
        self.has_gw = self.spec.get("gw") is not None and self.spec["gw"].get("water_table", "Y") == "Y"
        self.prev = None           # previous DayRecord
        self.season_first_seen = set()
        self.state = {}            # per-monitor scratch

    def storage(self, th):
        return float(1000.0 * np.dot(th, self.dz))

    def in_season(self, rec):
        """harness's own determination of 'growing season' for the day (dates + state flags before the step)"""
        s = rec.season
        if s < 0 or s >= len(self.planting):
            return False
        if not (self.planting[s] <= rec.date <= self.harvest[s]):
            return False
        f = rec.flags0
        return (f["crop_mature"] is False) and (f["crop_dead"] is False)

    def mgmt(self, rec):
        return self.field if self.in_season(rec) else self.fallow

    def season_reset_day(self, rec):
        """True when this day is the first of a season reached by skipping the off-season"""
        p = self.prev
        return (p is not None and not self.off_season and rec.season > p.season)

    def crop(self, rec):
        ps = self.node.model._param_struct
        if rec.season >= 0:
            return ps.Seasonal_Crop_List[rec.season]
        return ps.Fallow_Crop


def _field(f):
    d = {"mulches": False, "bunds": False, "curve_number_adj": False, "sr_inhb": False, "mulch_pct": 50,
         "f_mulch": 0.5, "z_bund": 0.0, "bund_water": 0.0, "curve_number_adj_pct": 0}
    if f:
        d.update(f)
    d["z_bund_mm"] = d["z_bund"] * 1000
    d["has_bunds"] = bool(d["bunds"]) and d["z_bund_mm"] > 0.001
    return d


def fx(rec, col):
    return float(rec.flux[FI[col]])


def gr(rec, col):
    return float(rec.growth[GI[col]])


# ---------------------------------------------------------------------------------------------
# C01

def _process_ledger(ctx, rec):
    """[(process, discrepancy mm, signature, message)] for every process whose storage change differs from its report"""
    led = rec.ledger
    out = []
    if not led:
        return out
    pr = rec.proc_ret
    dp_drain = (pr.get("drainage") or {}).get("DeepPerc", 0.0) or 0.0
    for i in range(len(led) - 1):
        name, th_a, ss_a = led[i]
        _, th_b, ss_b = led[i + 1]
        d = (ctx.storage(th_b) + ss_b) - (ctx.storage(th_a) + ss_a)
        exp = 0.0
        tol_p = 1e-7
        if name == "pre_irrigation":
            exp = pr["pre_irrigation"]["PreIrr"]
        elif name == "drainage":
            exp = -pr["drainage"]["DeepPerc"]
        elif name == "infiltration":
            exp = pr["infiltration"]["Infl"] - (pr["infiltration"]["DeepPerc"] - dp_drain)
        elif name == "capillary_rise":
            exp = pr["capillary_rise"]["CR"]
            if exp > 0:
                tol_p += 0.05 * ctx.depth
        elif name == "soil_evaporation":
            exp = -pr["soil_evaporation"]["Es"]
        elif name == "transpiration":
            exp = -pr["transpiration"]["Tr"] + pr["transpiration"]["IrrNet"]
        elif name == "groundwater_inflow":
            exp = pr["groundwater_inflow"]["GwIn"]
        if not (abs(d - exp) <= tol_p):
            sig = f"C01:process-ledger:{name}"
            if name == "drainage" and d - exp < 0:
                # water vanished in drainage; distinguish the case "excess pushed up a profile that is
                # saturated all the way to the surface" (nowhere left to store it) from any other loss
                sat = th_b >= ctx.th_s - 1e-12
                k = 0
                while k < len(sat) and sat[k]:
                    k += 1
                if k >= 1:
                    sig += ":excess-dropped-at-saturated-surface"
            out.append((name, d - exp, sig,
                        f"day t={rec.t}: storage+ponded changed by {d:.9f} mm across {name}, which reports {exp:.9f} mm"))
    return out


def mon_c01(ctx, rec):
    out = []
    S0, S1 = ctx.storage(rec.th0), ctx.storage(rec.th1)
    irrnet = fx(rec, "IrrDay") if ctx.irr_method == 4 else 0.0
    cr = fx(rec, "CR")
    rhs = fx(rec, "Infl") + irrnet + cr + fx(rec, "GwIn") - fx(rec, "DeepPerc") - fx(rec, "Es") - fx(rec, "Tr")
    lhs = (S1 + rec.ss1) - (S0 + rec.ss0)
    tol = 1e-6 + (0.05 * ctx.depth if cr > 0 else 0.0)
    resid = lhs - rhs
    pl = _process_ledger(ctx, rec)
    for name, disc, sig, msg in pl:
        out.append((sig, msg))
    if not (abs(resid) <= tol) or not math.isfinite(resid):
        sig = "C01:daily-ledger"
        if pl and abs(sum(x[1] for x in pl) - resid) <= 1e-6 + (0.05 * ctx.depth if cr > 0 else 0.0):
            # the per-process ledger accounts for the whole residual: name the processes
            sig += "<=" + "+".join(sorted(set(x[2].split("C01:process-ledger:")[1] for x in pl)))
        out.append((sig, f"day t={rec.t} {rec.date.date()}: d(storage+ponded)={lhs:.9f} mm but fluxes sum to {rhs:.9f} mm (residual {resid:.3e}, tol {tol:.1e}); "
                    f"Infl={fx(rec,'Infl')} IrrNet={irrnet} CR={cr} GwIn={fx(rec,'GwIn')} DeepPerc={fx(rec,'DeepPerc')} Es={fx(rec,'Es')} Tr={fx(rec,'Tr')} ponded {rec.ss0}->{rec.ss1}"))
    ctx.state["c01_max_resid"] = max(ctx.state.get("c01_max_resid", 0.0), abs(resid) if math.isfinite(resid) else 0.0)
    # storage table row must show the state after the step
    if not np.array_equal(rec.storage[3:], rec.th1):
        out.append(("C01:storage-row", f"day t={rec.t}: water-storage row differs from the state after the step"))
    if float(rec.flux[FI["surface_storage"]]) != rec.ss1:
        out.append(("C01:ponding-row", f"day t={rec.t}: surface_storage column {rec.flux[FI['surface_storage']]} != state {rec.ss1}"))
    # carry-over
    p = ctx.prev
    if p is not None:
        if ctx.season_reset_day(rec):
            f = ctx.field
            ss_cfg = min(f["bund_water"], f["z_bund_mm"]) if f["has_bunds"] else 0.0
            if not np.array_equal(rec.th0, ctx.th_init):
                i = int(np.argmax(rec.th0 != ctx.th_init))
                out.append(("C01:reset-not-configured-initial", f"season {rec.season} starts (t={rec.t}) with th[{i}]={rec.th0[i]!r}, configured initial water content is {ctx.th_init[i]!r}"))
            if rec.ss0 != ss_cfg:
                out.append(("C01:reset-ponding", f"season {rec.season} starts (t={rec.t}) with ponded={rec.ss0}, configured initial ponding is {ss_cfg}"))
        else:
            if not np.array_equal(rec.th0, p.th1) or rec.ss0 != p.ss1:
                out.append(("C01:carry-over", f"state before step t={rec.t} differs from the state left by step t={p.t}"))
    if rec.ledger:
        pr = rec.proc_ret
        # the row repeats what the processes reported
        chk = [("DeepPerc", pr.get("infiltration", {}).get("DeepPerc")), ("CR", pr.get("capillary_rise", {}).get("CR")),
               ("GwIn", pr.get("groundwater_inflow", {}).get("GwIn")), ("Es", pr.get("soil_evaporation", {}).get("Es")),
               ("Tr", pr.get("transpiration", {}).get("Tr")), ("Infl", pr.get("infiltration", {}).get("Infl")),
               ("Runoff", pr.get("infiltration", {}).get("Runoff"))]
        for col, val in chk:
            if val is not None and fx(rec, col) != val and not (math.isnan(val) and math.isnan(fx(rec, col))):
                out.append((f"C01:row-vs-process:{col}", f"day t={rec.t}: column {col}={fx(rec, col)} but the process reported {val}"))
    return out


# ---------------------------------------------------------------------------------------------
# C02

def mon_c02(ctx, rec):
    out = []
    P = rec.wx[2]
    ins = ctx.in_season(rec)
    irr = fx(rec, "IrrDay") if ctx.irr_method != 4 else 0.0
    irr_eff = irr * ctx.app_eff / 100.0 if ins else 0.0
    infl, ro = fx(rec, "Infl"), fx(rec, "Runoff")
    supply = P + irr_eff
    if not (abs((infl + ro) - supply) <= 1e-9 * max(1.0, abs(supply))):
        out.append(("C02:partition", f"day t={rec.t}: rain {P} + effective irrigation {irr_eff} = {supply} but Infl {infl} + Runoff {ro} = {infl + ro}"))
    if ro < 0:
        out.append(("C02:runoff-negative", f"day t={rec.t}: Runoff={ro}"))
    if ro > supply + rec.ss0 + 1e-9 * max(1.0, supply + rec.ss0):
        out.append(("C02:runoff-exceeds-supply", f"day t={rec.t}: Runoff={ro} > rain+irrigation+ponded = {supply + rec.ss0}"))
    mg = ctx.mgmt(rec)
    if infl < 0:
        if mg["has_bunds"] or rec.ss0 <= 0:
            out.append(("C02:negative-infiltration", f"day t={rec.t}: Infl={infl} with bunds={mg['has_bunds']} ponded_before={rec.ss0}"))
        elif infl < -rec.ss0 - 1e-9:
            out.append(("C02:negative-infiltration-exceeds-ponding", f"day t={rec.t}: Infl={infl} < -ponded_before={-rec.ss0}"))
    if P == 0 and irr == 0 and rec.ss0 == 0 and (infl != 0 or ro != 0):
        out.append(("C02:something-from-nothing", f"day t={rec.t}: no rain, irrigation or ponding but Infl={infl} Runoff={ro}"))
    return out


# ---------------------------------------------------------------------------------------------
# C03

def mon_c03(ctx, rec):
    out = []
    th = rec.th1
    lo = th < ctx.th_dry - 1e-12
    hi = th > ctx.th_s + 1e-12
    if lo.any():
        i = int(np.argmax(lo))
        out.append(("C03:below-air-dry", f"day t={rec.t}: th[{i}]={th[i]!r} < air-dry {ctx.th_dry[i]!r}"))
    if hi.any():
        i = int(np.argmax(hi))
        out.append(("C03:above-saturation", f"day t={rec.t}: th[{i}]={th[i]!r} > saturation {ctx.th_s[i]!r}"))
    if not np.isfinite(th).all():
        out.append(("C03:non-finite-th", f"day t={rec.t}: non-finite water content"))
    mg = ctx.mgmt(rec)
    ss = rec.ss1
    if ss < 0:
        out.append(("C03:ponding-negative", f"day t={rec.t}: ponded={ss}"))
    if mg["has_bunds"]:
        if ss > mg["z_bund_mm"] + 1e-9:
            out.append(("C03:ponding-above-bund", f"day t={rec.t}: ponded={ss} > bund height {mg['z_bund_mm']} mm"))
    elif ss != 0:
        out.append(("C03:ponding-without-bunds", f"day t={rec.t}: ponded={ss} with no bunds configured for this period"))
    if fx(rec, "Wr") < 0:
        out.append(("C03:negative-root-zone-storage", f"day t={rec.t}: Wr={fx(rec, 'Wr')}"))
    return out


# ---------------------------------------------------------------------------------------------
# C04

def mon_c04(ctx, rec):
    out = []
    for col in ("IrrDay", "Runoff", "DeepPerc", "CR", "GwIn", "Es", "EsPot", "Tr", "TrPot"):
        v = fx(rec, col)
        lim = 0.0
        if col == "IrrDay" and ctx.irr_method == 4:
            lim = -0.01 * ctx.ncomp
        if not (v >= lim):
            out.append((f"C04:negative:{col}", f"day t={rec.t} {rec.date.date()}: {col}={v!r}"))
    es, esp, tr, trp = fx(rec, "Es"), fx(rec, "EsPot"), fx(rec, "Tr"), fx(rec, "TrPot")
    if es > esp + 1e-9:
        out.append(("C04:Es>EsPot", f"day t={rec.t}: Es={es!r} > EsPot={esp!r}"))
    if tr > trp + 1e-9:
        out.append(("C04:Tr>TrPot", f"day t={rec.t}: Tr={tr!r} > TrPot={trp!r}"))
    if not ctx.in_season(rec):
        for col in ("Tr", "TrPot", "IrrDay"):
            if fx(rec, col) != 0:
                out.append((f"C04:off-season:{col}", f"day t={rec.t}: {col}={fx(rec, col)!r} outside a growing season"))
    return out


# ---------------------------------------------------------------------------------------------
# C05

def mon_c05(ctx, rec):
    out = []
    g = rec.growth
    ins = ctx.in_season(rec)
    if not np.isfinite(np.delete(g, [])).all():
        bad = [c for c in GI if not math.isfinite(g[GI[c]])]
        out.append(("C05:non-finite:" + ",".join(bad), f"day t={rec.t}: non-finite crop outputs {bad}"))
    st = ctx.state.setdefault("c05", {})
    if not ins:
        for col in ("canopy_cover", "biomass", "DryYield", "FreshYield", "dap"):
            if gr(rec, col) != 0:
                out.append((f"C05:off-season:{col}", f"day t={rec.t}: {col}={gr(rec, col)!r} outside a growing season"))
        st.clear()
        return out
    crop = ctx.crop(rec)
    CCx, Zmin, Zmax, HI0, dHI0 = float(crop.CCx), float(crop.Zmin), float(crop.Zmax), float(crop.HI0), float(crop.dHI0)
    Tb, Tu = float(crop.Tbase), float(crop.Tupp)
    cc, ccns = gr(rec, "canopy_cover"), gr(rec, "canopy_cover_ns")
    eps = 1e-12
    if cc < -eps or cc > CCx + eps:
        out.append(("C05:CC-out-of-range", f"day t={rec.t} dap={gr(rec,'dap')}: canopy_cover={cc!r} not in [0, CCx={CCx}]"))
    if cc > ccns + eps:
        out.append(("C05:CC>CC_ns", f"day t={rec.t} dap={gr(rec,'dap')}: canopy_cover={cc!r} > no-stress canopy {ccns!r}"))
    zr = gr(rec, "z_root")
    zgw = fx(rec, "z_gw") if ctx.has_gw else None
    if zr < Zmin - eps or zr > Zmax + eps:
        out.append(("C05:z_root-out-of-range", f"day t={rec.t} dap={gr(rec,'dap')}: z_root={zr!r} not in [Zmin={Zmin}, Zmax={Zmax}]"))
    if zgw is not None and zgw > 0 and zgw >= Zmin and zr > zgw + eps:
        out.append(("C05:z_root-below-water-table", f"day t={rec.t}: z_root={zr!r} below water table at {zgw!r}"))
    prev_season = st.get("season")
    if prev_season == rec.season:
        pz = st["z_root"]
        if zr < pz - eps:
            forced = zgw is not None and zgw > 0 and zgw < pz
            if not forced:
                out.append(("C05:z_root-shrinks", f"day t={rec.t} dap={gr(rec,'dap')}: z_root {pz!r} -> {zr!r} without a rising water table"))
        for col, sig in (("harvest_index", "HI-decreases"), ("biomass", "biomass-decreases"), ("gdd_cum", "gdd_cum-decreases")):
            if gr(rec, col) < st[col] - 1e-12 * max(1.0, abs(st[col])):
                out.append((f"C05:{sig}", f"day t={rec.t} dap={gr(rec,'dap')}: {col} {st[col]!r} -> {gr(rec, col)!r}"))
        gsum = st["gdd_sum"] + gr(rec, "gdd")
    else:
        gsum = gr(rec, "gdd")
    hi, hia = gr(rec, "harvest_index"), gr(rec, "harvest_index_adj")
    if hi > HI0 + eps:
        out.append(("C05:HI>HI0", f"day t={rec.t}: harvest_index={hi!r} > HI0={HI0}"))
    if hia > HI0 * (1 + dHI0 / 100.0) + 1e-12:
        out.append(("C05:HIadj>cap", f"day t={rec.t}: harvest_index_adj={hia!r} > HI0*(1+dHI0/100)={HI0 * (1 + dHI0 / 100.0)!r}"))
    gdd = gr(rec, "gdd")
    if gdd < -eps or gdd > (Tu - Tb) + 1e-9:
        out.append(("C05:gdd-out-of-range", f"day t={rec.t}: gdd={gdd!r} not in [0, Tupp-Tbase={Tu - Tb}]"))
    if abs(gsum - gr(rec, "gdd_cum")) > 1e-9 * max(1.0, abs(gsum)):
        out.append(("C05:gdd-sum", f"day t={rec.t}: sum of daily gdd {gsum!r} != gdd_cum {gr(rec, 'gdd_cum')!r}"))
    st.update({"season": rec.season, "z_root": zr, "harvest_index": hi, "biomass": gr(rec, "biomass"),
               "gdd_cum": gr(rec, "gdd_cum"), "gdd_sum": gsum})
    return out


# ---------------------------------------------------------------------------------------------
# state signature (reach measure)

def state_signature(ctx, rec):
    f = rec.flags1
    trp = fx(rec, "TrPot")
    ratio = 5 if trp <= 0 else min(4, int(4 * fx(rec, "Tr") / trp))
    return (int(ctx.in_season(rec)), int(f["growth_stage"] or 0), int(bool(f["germination"])), int(bool(f["premat_senes"])),
            int(bool(f["crop_dead"])), int(bool(f["wt_in_soil"])), int(rec.ss1 > 0), int(fx(rec, "Runoff") > 0),
            int(fx(rec, "DeepPerc") > 0), int(fx(rec, "CR") > 0), int(fx(rec, "IrrDay") > 0), int(bool(f["stage2"])), ratio)


def probes_of(ctx, rec, probes):
    """rare-condition counters"""
    def inc(k):
        probes[k] = probes.get(k, 0) + 1
    f = rec.flags1
    mg = ctx.mgmt(rec)
    if mg["has_bunds"] and rec.ss1 >= mg["z_bund_mm"] - 1e-9 and fx(rec, "Runoff") > 0:
        inc("bund_overtopping")
    if rec.ss0 > 0 and not mg["has_bunds"]:
        inc("bunds_removed_with_ponding")
    if fx(rec, "Runoff") > 0:
        inc("runoff_day")
    if rec.ss1 > 0:
        inc("ponded_day")
    if fx(rec, "DeepPerc") > 0:
        inc("deep_percolation_day")
    if fx(rec, "CR") > 0:
        inc("capillary_rise_day")
    if fx(rec, "GwIn") > 0:
        inc("groundwater_inflow_day")
    if f["crop_dead"]:
        inc("crop_dead_day")
    if f["premat_senes"]:
        inc("early_senescence_day")
    if f["stage2"]:
        inc("stage2_evaporation_day")
    if rec.wx[2] >= 80:
        inc("storm_day")
    if ctx.in_season(rec) and gr(rec, "canopy_cover") > 0.966:
        inc("closed_canopy_day")
    pr = rec.proc_ret.get("pre_irrigation")
    if pr and pr["PreIrr"] and pr["PreIrr"] > 0:
        inc("pre_irrigation_positive")
    if (rec.th1 >= ctx.th_s - 1e-12).any():
        inc("saturated_compartment_day")
    if (rec.th1 <= ctx.th_dry + 1e-9).any():
        inc("air_dry_compartment_day")
    if ctx.season_reset_day(rec):
        inc("season_reset")
