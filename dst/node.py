"""Nodes and seams of the farm world.

A Node is one AquaCropModel plus its driver state.  All interaction with the model goes
through the public API (`run_model`, getters) and the documented attributes the notebooks use
(`_clock_struct`, `_init_cond`, `_param_struct`, `_weather`).  Observation uses harness-side
seams only: the process functions imported by name into
`aquacrop.timestep.run_single_timestep`, and `solution_single_time_step`, `update_time`,
`check_model_is_finished` as imported into `aquacrop.core`, are rebound to dispatching
wrappers.  With no observer active the wrappers are transparent.
"""
import copy
import hashlib

from . import boot
from .boot import CLOCK
import numpy as np
import pandas as pd

import aquacrop.core as ac_core
import aquacrop.timestep.run_single_timestep as rst
from .spec import Objects, new_model

PROCESS_NAMES = [
    "check_groundwater_table", "root_development", "pre_irrigation", "drainage",
    "rainfall_partition", "irrigation", "infiltration", "capillary_rise", "germination",
    "growth_stage", "canopy_cover", "soil_evaporation", "transpiration", "groundwater_inflow",
    "HIref_current_day", "biomass_accumulation", "harvest_index", "root_zone_water",
    "growing_degree_day",
]
WATER_MOVERS = {"pre_irrigation", "drainage", "infiltration", "capillary_rise",
                "soil_evaporation", "transpiration", "groundwater_inflow"}


class SimCrash(Exception):
    """fault F2: injected crash inside a step"""


class Seam:
    def __init__(self):
        self.observer = None
        self.installed = False
        self.orig = {}

    def install(self):
        if self.installed:
            return
        missing = [n for n in PROCESS_NAMES if not hasattr(rst, n)]
        if missing:
            raise RuntimeError(f"harness seam: process functions not found in run_single_timestep: {missing}")
        for name in PROCESS_NAMES:
            orig = getattr(rst, name)
            self.orig[name] = orig
            setattr(rst, name, self._wrap_process(name, orig))
        for name in ("solution_single_time_step", "update_time", "check_model_is_finished"):
            if not hasattr(ac_core, name):
                raise RuntimeError(f"harness seam: {name} not found in aquacrop.core")
            orig = getattr(ac_core, name)
            self.orig["core." + name] = orig
            setattr(ac_core, name, self._wrap_core(name, orig))
        self.installed = True

    def _wrap_process(self, name, orig):
        seam = self

        def wrapped(*a, **k):
            obs = seam.observer
            if obs is None:
                return orig(*a, **k)
            return obs.on_process(name, orig, a, k)
        wrapped.__name__ = name
        wrapped.__wrapped__ = orig
        return wrapped

    def _wrap_core(self, name, orig):
        seam = self

        def wrapped(*a, **k):
            obs = seam.observer
            if obs is None:
                return orig(*a, **k)
            return getattr(obs, "on_" + name)(orig, a, k)
        wrapped.__name__ = name
        wrapped.__wrapped__ = orig
        return wrapped


SEAM = Seam()
SEAM.install()


# ---------------------------------------------------------------------------------------------
# tables

def _as_array(x):
    if isinstance(x, pd.DataFrame):
        return x.values.astype(float)
    return np.asarray(x, dtype=float)


def final_rows(df):
    rows = []
    if df is False or df is None:
        return None
    for idx, r in zip(df.index.tolist(), df.values.tolist()):
        row = [int(idx) if isinstance(idx, (int, np.integer)) else str(idx)]
        for v in r:
            if isinstance(v, pd.Timestamp):
                row.append(v.strftime("%Y-%m-%d"))
            elif isinstance(v, (np.floating, float)):
                row.append(float(v))
            elif isinstance(v, (np.integer, int)) and not isinstance(v, bool):
                row.append(int(v))
            else:
                row.append(str(v))
        rows.append(row)
    return rows


def get_tables(model):
    """all four output tables through the public getters"""
    info = model.get_additional_information()
    res = model.get_simulation_results()
    meta = []
    for getter in (model.get_water_flux, model.get_water_storage, model.get_crop_growth):
        x = getter()
        if isinstance(x, pd.DataFrame):
            meta.append(("DataFrame", tuple(str(c) for c in x.columns), tuple(str(d) for d in x.dtypes), str(x.index.dtype), len(x)))
        else:
            meta.append((type(x).__name__, str(getattr(x, "dtype", "")), tuple(getattr(x, "shape", ()))))
    if res is not False and res is not None:
        meta.append(("final", tuple(str(c) for c in res.columns), tuple(str(d) for d in res.dtypes), tuple(str(i) for i in res.index)))
    return {
        "meta": tuple(meta),
        "flux": _as_array(model.get_water_flux()).copy(),
        "storage": _as_array(model.get_water_storage()).copy(),
        "growth": _as_array(model.get_crop_growth()).copy(),
        "final": final_rows(res) if res is not False else None,
        "finished": bool(info["has_model_finished"]),
    }


FLUX_COLS = ["time_step_counter", "season_counter", "dap", "Wr", "z_gw", "surface_storage", "IrrDay",
             "Infl", "Runoff", "DeepPerc", "CR", "GwIn", "Es", "EsPot", "Tr", "TrPot"]
GROWTH_COLS = ["time_step_counter", "season_counter", "dap", "gdd", "gdd_cum", "z_root", "canopy_cover",
               "canopy_cover_ns", "biomass", "biomass_ns", "harvest_index", "harvest_index_adj",
               "DryYield", "FreshYield", "YieldPot"]
FI = {c: i for i, c in enumerate(FLUX_COLS)}
GI = {c: i for i, c in enumerate(GROWTH_COLS)}


def arr_equal(a, b):
    if a.shape != b.shape:
        return False
    return bool(((a == b) | (np.isnan(a) & np.isnan(b))).all())


def _row_eq(x, y):
    if len(x) != len(y):
        return False
    for p, q in zip(x, y):
        if isinstance(p, float) and isinstance(q, float):
            if not (p == q or (p != p and q != q)):
                return False
        elif p != q:
            return False
    return True


def diff_tables(a, b, skip_cols=None, strict_types=False):
    """first difference between two table dicts, or None.  skip_cols: {"flux": [col idx]}
    strict_types: also compare container type, column labels, dtypes and index of the tables (same configuration, same
    code path: the tables must be the same objects structurally, not only numerically)"""
    skip_cols = skip_cols or {}
    if strict_types and a.get("meta") is not None and b.get("meta") is not None and a["meta"] != b["meta"]:
        for x, y in zip(a["meta"], b["meta"]):
            if x != y:
                return f"table structure differs: {x} vs {y}"
        return f"table structure differs: {len(a['meta'])} vs {len(b['meta'])} tables"
    if a["finished"] != b["finished"]:
        return f"completion status differs: {a['finished']} vs {b['finished']}"
    for name, cols in (("flux", FLUX_COLS), ("storage", None), ("growth", GROWTH_COLS)):
        x, y = a[name], b[name]
        if x.shape != y.shape:
            return f"{name}: shape {x.shape} vs {y.shape}"
        eq = (x == y) | (np.isnan(x) & np.isnan(y))
        for c in skip_cols.get(name, []):
            eq[:, c] = True
        if not eq.all():
            r, c = np.argwhere(~eq)[0]
            cname = cols[c] if cols else ("th%d" % (c - 2) if c >= 3 else ["time_step_counter", "growing_season", "dap"][c])
            return f"{name}[row {int(r)}, {cname}]: {x[r, c]!r} vs {y[r, c]!r}"
    fa, fb = a["final"], b["final"]
    if (fa is None) != (fb is None):
        return f"final: {'none' if fa is None else 'table'} vs {'none' if fb is None else 'table'}"
    if fa is not None:
        if len(fa) != len(fb):
            return f"final: {len(fa)} rows vs {len(fb)} rows"
        for i, (x, y) in enumerate(zip(fa, fb)):
            if not _row_eq(x, y):
                return f"final[row {i}]: {x} vs {y}"
    return None


def digest_tables(t):
    h = hashlib.sha256()
    for name in ("flux", "storage", "growth"):
        a = np.array(t[name], dtype=float)
        a[np.isnan(a)] = np.nan  # canonical NaN
        a = a + 0.0  # -0.0 stays -0.0; fine: same computation gives same sign
        h.update(name.encode())
        h.update(str(a.shape).encode())
        h.update(np.ascontiguousarray(a).tobytes())
    h.update(repr(t["final"]).encode())
    h.update(repr(t["finished"]).encode())
    return h.hexdigest()[:24]


# ---------------------------------------------------------------------------------------------

class DayRecord:
    __slots__ = ("t", "date", "season", "th0", "ss0", "flags0", "wx", "th1", "ss1", "flux", "growth",
                 "storage", "flags1", "ledger", "irr", "gw", "growing", "final_written", "cond0",
                 "proc_ret", "dap0", "irr_cum0", "zr0", "gs0", "delayed1")

    def __init__(self):
        self.ledger = []
        self.irr = None
        self.gw = None
        self.proc_ret = {}
        self.final_written = None


FLAG_FIELDS = ("crop_mature", "crop_dead", "harvest_flag", "germination", "premat_senes", "growth_stage",
               "growing_season", "wt_in_soil", "dap", "stage2", "yield_form", "f_pre", "f_post", "f_pol")


def _flags(cond):
    return {f: getattr(cond, f, None) for f in FLAG_FIELDS}


class Node:
    """one model under the world's control"""

    def __init__(self, spec, objs=None, name="n0", probes=(), start=None, end=None):
        self.spec = spec
        self.name = name
        self.objs = objs if objs is not None else Objects(spec)
        self.model = new_model(spec, self.objs, start=start, end=end)
        self.probes = set(probes)
        self.records = []          # DayRecord per simulated day (if "days" in probes)
        self.time_events = []      # update_time observations
        self.finish_checks = []    # check_model_is_finished observations
        self.day_hooks = []        # callables(node, rec) after each day
        self.pre_day_hooks = []    # callables(node, t) before each day (weather delivery, controller)
        self.update_hooks = []     # callables(node, info) after each update_time
        self.crash_at = None       # (t, process_index) -> raise SimCrash
        self._cur = None
        self._pidx = 0
        self.initialized = False
        self.steps_done = 0
        self.calls = 0

    # -- driver operations (public API of the model) -----------------------------------------
    def initialize(self):
        self._run(lambda: self.model._initialize())
        self.initialized = True

    def step(self, k=1):
        """run_model(num_steps=k, initialize_model=False)"""
        self.calls += 1
        return self._run(lambda: self.model.run_model(num_steps=k, initialize_model=False))

    def first_call(self, k=1):
        """run_model(num_steps=k) -- initialises"""
        self.calls += 1
        r = self._run(lambda: self.model.run_model(num_steps=k))
        self.initialized = True
        return r

    def run_to_end(self, initialize=True):
        self.calls += 1
        r = self._run(lambda: self.model.run_model(till_termination=True, initialize_model=initialize))
        self.initialized = True
        return r

    def _run(self, fn):
        prev = SEAM.observer
        SEAM.observer = self
        try:
            return fn()
        finally:
            SEAM.observer = prev

    @property
    def finished(self):
        return bool(self.model._clock_struct.model_is_finished)

    @property
    def clock(self):
        return self.model._clock_struct

    def tables(self):
        return get_tables(self.model)

    # -- seam callbacks ---------------------------------------------------------------------
    def on_solution_single_time_step(self, orig, a, k):
        init_cond, param_struct, clock, weather_step, outputs = a[:5]
        t = int(clock.time_step_counter)
        for h in self.pre_day_hooks:
            h(self, t)
        # weather row may have been delivered by a pre-day hook: re-read it through the same path
        if self.pre_day_hooks:
            weather_step = self.model._weather[t]
            a = (init_cond, param_struct, clock, weather_step, outputs) + tuple(a[5:])
        want = "days" in self.probes
        rec = None
        if want:
            rec = DayRecord()
            rec.t = t
            rec.date = pd.Timestamp(clock.step_start_time)
            rec.season = int(clock.season_counter)
            rec.th0 = np.array(init_cond.th, dtype=float, copy=True)
            rec.ss0 = float(init_cond.surface_storage)
            rec.flags0 = _flags(init_cond)
            rec.dap0 = init_cond.dap
            rec.irr_cum0 = float(init_cond.irr_cum)
            rec.zr0 = float(init_cond.z_root)
            rec.gs0 = init_cond.growth_stage
            rec.wx = (float(weather_step[0]), float(weather_step[1]), float(weather_step[2]), float(weather_step[3]))
            rec.cond0 = init_cond
        self._cur = rec
        self._cond = init_cond
        self._pidx = 0
        self._t = t
        ret = orig(*a, **k)
        new_cond, _, outs = ret
        self.steps_done += 1
        if want:
            rec.th1 = np.array(new_cond.th, dtype=float, copy=True)
            rec.ss1 = float(new_cond.surface_storage)
            rec.flags1 = _flags(new_cond)
            rec.delayed1 = (float(new_cond.delayed_cds), float(new_cond.delayed_gdds))
            rec.growing = bool(new_cond.growing_season)
            rec.flux = np.array(outs.water_flux[t], dtype=float, copy=True)
            rec.growth = np.array(outs.crop_growth[t], dtype=float, copy=True)
            rec.storage = np.array(outs.water_storage[t], dtype=float, copy=True)
            if "ledger" in self.probes:
                rec.ledger.append(("__end__", rec.th1, rec.ss1))
            rec.cond0 = None
            self.records.append(rec)
            self._cur = None
            for h in self.day_hooks:
                h(self, rec)
        return ret

    def on_process(self, name, orig, a, k):
        idx = self._pidx
        self._pidx += 1
        if self.crash_at is not None and self.crash_at == (self._t, idx):
            self.crash_at = None
            raise SimCrash(f"crash at step {self._t} process #{idx} ({name})")
        rec = self._cur
        if rec is not None and "ledger" in self.probes and name != "root_zone_water" and name != "growing_degree_day":
            cond = self._cond
            rec.ledger.append((name, np.array(cond.th, dtype=float, copy=True), float(cond.surface_storage)))
        if rec is not None and name == "irrigation" and "irr" in self.probes:
            cond = self._cond
            rec.irr = {"args": a, "th": np.array(cond.th, dtype=float, copy=True), "z_root": float(cond.z_root),
                       "growth_stage": cond.growth_stage, "irr_cum": float(cond.irr_cum), "dap": cond.dap,
                       "e_pot": float(cond.e_pot), "t_pot": float(cond.t_pot)}
        ret = orig(*a, **k)
        if rec is not None:
            if name in WATER_MOVERS or name in ("rainfall_partition", "irrigation", "check_groundwater_table"):
                rec.proc_ret[name] = _summ_ret(name, ret)
        return ret

    def on_update_time(self, orig, a, k):
        clock, cond = a[0], a[1]
        before = (int(clock.time_step_counter), int(clock.season_counter), pd.Timestamp(clock.step_start_time))
        hf = bool(cond.harvest_flag is True)
        fin = bool(clock.model_is_finished)
        ret = orig(*a, **k)
        c2, cond2 = ret[0], ret[1]
        info = {"t_before": before[0], "season_before": before[1], "date_before": before[2],
                "harvest_flag": hf, "finished": fin,
                "t_after": int(c2.time_step_counter), "season_after": int(c2.season_counter),
                "date_after": pd.Timestamp(c2.step_start_time),
                "reset": int(c2.season_counter) != before[1]}
        if "days" in self.probes:
            self.time_events.append(info)
        for h in self.update_hooks:
            h(self, info, cond2)
        return ret

    def on_check_model_is_finished(self, orig, a, k):
        ret = orig(*a, **k)
        if "days" in self.probes:
            self.finish_checks.append({"t": self._t, "harvest_flag": bool(a[5] is True), "finished": bool(ret)})
        return ret


def _f(x):
    try:
        return float(x)
    except Exception:
        return None


def _summ_ret(name, ret):
    if name == "drainage":
        return {"DeepPerc": _f(ret[1])}
    if name == "rainfall_partition":
        return {"Runoff": _f(ret[0]), "Infl": _f(ret[1])}
    if name == "irrigation":
        return {"depletion": _f(ret[0]), "taw": _f(ret[1]), "irr_cum": _f(ret[2]), "Irr": _f(ret[3])}
    if name == "infiltration":
        return {"DeepPerc": _f(ret[2]), "Runoff": _f(ret[3]), "Infl": _f(ret[4])}
    if name == "capillary_rise":
        return {"CR": _f(ret[1])}
    if name == "soil_evaporation":
        return {"Es": _f(ret[7]), "EsPot": _f(ret[8])}
    if name == "transpiration":
        return {"Tr": _f(ret[0]), "TrPot": _f(ret[2]), "IrrNet": _f(ret[4])}
    if name == "groundwater_inflow":
        return {"GwIn": _f(ret[1])}
    if name == "pre_irrigation":
        return {"PreIrr": _f(ret[1])}
    if name == "check_groundwater_table":
        return {"th_fc_Adj": np.array(ret[0], dtype=float, copy=True), "wt_in_soil": ret[1], "z_gw": ret[2]}
    return None


def run_reference(spec, start=None, end=None):
    """fresh objects, one call to termination; returns (node, tables)"""
    n = Node(spec, start=start, end=end)
    n.run_to_end()
    return n, n.tables()


def fork(node):
    """deepcopy fork of a node's model (volatile + durable state together)"""
    m = copy.deepcopy(node.model)
    n2 = Node.__new__(Node)
    n2.__dict__.update({k: v for k, v in node.__dict__.items() if k not in ("model", "records", "time_events", "finish_checks")})
    n2.model = m
    n2.records = []
    n2.time_events = []
    n2.finish_checks = []
    n2.day_hooks = list(node.day_hooks)
    n2.pre_day_hooks = list(node.pre_day_hooks)
    n2.update_hooks = list(node.update_hooks)
    return n2
