"""Self-tests of the machinery itself: determinism of the simulator, sensitivity to mutants."""
import json
import os
import shutil
import subprocess
import sys
import tempfile
import time

from . import boot
from .boot import VERIF, REPO

ALL = ["C01", "C02", "C03", "C04", "C05", "C06", "C07", "C08", "C09", "C10", "C11", "C12", "C13", "C14", "C15", "C16", "C19", "C20"]


def _digests_inproc(pid, seeds, tier="quick"):
    from . import engine
    return [engine._work((pid, s, tier, i)).get("digest") for i, s in enumerate(seeds)]


def _digests_sub(pid, seeds, hashseed, workers):
    env = dict(os.environ, PYTHONHASHSEED=str(hashseed))
    p = subprocess.run([sys.executable, "-B", "-W", "ignore", os.path.join(VERIF, "dst", "cli.py"), "digests", pid, json.dumps(seeds), str(workers)],
                       env=env, capture_output=True, text=True, timeout=3600)
    line = [l for l in p.stdout.splitlines() if l.startswith("DIGESTS ")]
    if not line:
        raise RuntimeError(p.stderr[-600:])
    return json.loads(line[0][8:])


def digests_cmd(argv):
    """child entry: print digests for seeds, through the pool with the given worker count (0 = in-process)"""
    import concurrent.futures as cf
    import multiprocessing as mp
    from . import engine
    pid, seeds, workers = argv[0], json.loads(argv[1]), int(argv[2])
    tasks = [(pid, s[0], "quick", s[1]) if isinstance(s, list) else (pid, s, "quick", i) for i, s in enumerate(seeds)]
    if workers <= 0:
        out = [engine._work(t).get("digest") for t in tasks]
    else:
        with cf.ProcessPoolExecutor(max_workers=workers, mp_context=mp.get_context("fork")) as ex:
            out = [r.get("digest") for r in ex.map(engine._work, tasks)]
    print("DIGESTS " + json.dumps(out))
    return 0


def determinism(argv):
    """same run seed twice in one process; fresh interpreter under other hash seeds; pool at 1, 4, 16 workers"""
    n = int(argv[0]) if argv and argv[0].isdigit() else 12
    props = [a.upper() for a in argv if a.upper() in ALL] or ALL
    bad = 0
    t0 = time.time()
    report = {}
    for pid in props:
        seeds = [i * 7919 + 13 for i in range(n)]
        a = _digests_sub(pid, seeds, 0, 0)
        b = _digests_sub(pid, seeds, 12345, 0)       # other hash seed, fresh interpreter
        c = _digests_sub(pid, seeds, 777, 4)         # pool, 4 workers
        d = _digests_sub(pid, seeds, 0, 16)          # pool, 16 workers
        pairs = [[s, i] for i, s in enumerate(seeds)]
        e = _digests_sub(pid, pairs + pairs, 1, 1)   # each (seed, index) twice in the same interpreter (pool of 1)
        ok = a == b == c == d and e[:n] == a and e[n:] == a and None not in a
        report[pid] = {"seeds": n, "identical": ok}
        print(f"determinism {pid}: {n} seeds x (twice in-process, hash seeds 0/12345/777/1, workers 0/1/4/16): {'IDENTICAL' if ok else 'MISMATCH'}", flush=True)
        if not ok:
            bad += 1
            for i, s in enumerate(seeds):
                if len({a[i], b[i], c[i], d[i], e[i], e[n + i]}) > 1:
                    print(f"   seed {s}: {a[i]} {b[i]} {c[i]} {d[i]} {e[i]} {e[n + i]}")
    os.makedirs(os.path.join(VERIF, "evidence"), exist_ok=True)
    with open(os.path.join(VERIF, "evidence", "selftest-determinism.json"), "w") as f:
        json.dump({"report": report, "wall_s": round(time.time() - t0, 1)}, f, indent=1)
    return 2 if bad else 0


def _copy_tree(dst):
    shutil.copytree(os.path.join(REPO, "aquacrop"), os.path.join(dst, "aquacrop"),
                    ignore=shutil.ignore_patterns("__pycache__", "*.pyc"))
    for extra in ("tests", "setup.py", "pyproject.toml", "setup.cfg", "README.md", "requirements.txt", "MANIFEST.in"):
        src = os.path.join(REPO, extra)
        if os.path.isdir(src):
            shutil.copytree(src, os.path.join(dst, extra), ignore=shutil.ignore_patterns("__pycache__", "*.pyc"))
        elif os.path.exists(src):
            shutil.copy(src, dst)


def apply_mutant(root, mut):
    path = os.path.join(root, mut["file"])
    with open(path, newline="") as f:
        s = f.read()
    old, new = mut["old"], mut["new"]
    if "\r\n" in s:
        old, new = old.replace("\n", "\r\n"), new.replace("\n", "\r\n")
    if s.count(old) != 1:
        raise RuntimeError(f"mutant {mut['id']}: pattern matches {s.count(old)} times in {mut['file']}")
    with open(path, "w", newline="") as f:
        f.write(s.replace(old, new))


def sensitivity(argv):
    """apply each mutant to a scratch copy of the tree, run the owning property's quick check there"""
    sys.path.insert(0, os.path.join(VERIF, "mutants"))
    import mutants as MU
    only = [a for a in argv if not a.startswith("--")]
    with_tests = "--with-tests" in argv
    scratch_root = os.environ.get("VERIF_SCRATCH") or tempfile.mkdtemp(prefix="verif-scratch-")
    os.makedirs(scratch_root, exist_ok=True)
    results = []
    for mut in MU.M:
        if only and not any(o.lower() in (mut["id"].lower(), mut["property"].lower()) for o in only):
            continue
        d = tempfile.mkdtemp(prefix="mut-", dir=scratch_root)
        t0 = time.time()
        try:
            _copy_tree(d)
            apply_mutant(d, mut)
            tests = None
            if with_tests:
                p = subprocess.run(["/venv/bin/python", "-m", "pytest", "-q", "-x", "-p", "no:cacheprovider", "tests"], cwd=d,
                                   env=dict(os.environ, PYTHONPATH=d), capture_output=True, text=True, timeout=1800)
                tail = (p.stdout.strip().splitlines() or [""])[-1]
                tests = "pass" if p.returncode == 0 else "FAIL: " + tail
            env = dict(os.environ, VERIF_REPO=d, VERIF_NO_EVIDENCE="1")
            env.setdefault("VERIF_SEED", "0")
            p = subprocess.run([sys.executable, "-B", "-W", "ignore", os.path.join(VERIF, "dst", "cli.py"), "check", mut["property"], "--tier", "quick"],
                               env=env, capture_output=True, text=True, timeout=3600)
            sigs = [l.split("signature:")[1].strip() for l in p.stdout.splitlines() if "signature:" in l]
            caught = p.returncode == 1 and "VIOLATION property=" in p.stdout
            results.append({"id": mut["id"], "property": mut["property"], "caught": caught, "exit": p.returncode, "signatures": sigs[:4],
                            "tests": tests, "wall_s": round(time.time() - t0, 1), "note": mut["note"]})
            print(f"mutant {mut['id']:42s} {mut['property']} -> {'CAUGHT' if caught else 'MISSED (exit %d)' % p.returncode} {sigs[:2]} tests={tests} {time.time() - t0:.0f}s", flush=True)
            if not caught and p.returncode == 2:
                print(p.stdout[-800:])
        finally:
            shutil.rmtree(d, ignore_errors=True)
    out = os.path.join(VERIF, "mutants", "results.json")
    prev = []
    if os.path.exists(out) and only:
        prev = [r for r in json.load(open(out)) if r["id"] not in {x["id"] for x in results}]
    with open(out, "w") as f:
        json.dump(sorted(prev + results, key=lambda r: r["id"]), f, indent=1)
    missed = [r["id"] for r in results if not r["caught"]]
    print(f"sensitivity: {len(results) - len(missed)}/{len(results)} mutants caught; missed: {missed}")
    try:
        os.rmdir(scratch_root)
    except OSError:
        pass
    return 0
