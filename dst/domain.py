"""Validity domain ("false-alarm firewall") and the classifier of permitted rejections.

Each generator dimension is listed with the constraint it respects and where that constraint
is documented.  Generators draw only inside this table.

| dimension | constraint | source |
|---|---|---|
| crop name | one of the keys of crop_params | Crop.__init__ assert |
| planting_date | 'mm/dd', never 02/29 | Crop docstring; leap day cannot recur yearly |
| crop overrides | documented switch sets (ETadj, PlantMethod, GDDmethod 1-3, Pol*/TrColdStress 0/1, Determinant 0/1 for fruit/grain crops only - leafy and root/tuber crops have no flowering period -, SwitchGDD 0/1) and, at a low rate, plausible values of three 'default program properties' (LagAer 2-8 days, Aer 2-15 vol%, GermThr 0.1-0.4; not in the C16 sweep, whose quantifier names the option switches only; LagAer = 1 is excluded: the per-compartment aeration factor is then 0/0) | Notebook 1 appendix table; Crop class docstring |
| calibrated crop parameters (C04, C05 only) | one or two of GDD_lo (2-5), GDD_up (10-14), CCx (0.7-0.95 of the default), Zmax (0.5-0.75 of the default, >= 0.4 m), Kcb (0.9-1.15), fage (0.05-0.3) | Crop class docstring (every parameter may be overridden) |
| soil type | one of the 15 built-ins or 'custom' with add_layer / add_layer_from_texture | Soil.__init__, Notebook 1 |
| dz | compartments 0.05-0.2 m (the deepening loop only extends compartments < 0.25 m) | read_model_parameters |
| custom layer | th_dry < wp < fc < sat (fc == sat makes the drainage characteristic 0/0; no built-in soil has it), Ksat > 0, penetrability 0-100 | Notebook 1 |
| texture | sand+clay <= 95, clay <= 60, OM 0.5-5 (Saxton-Rawls calibration range) | Soil.calculate_soil_hydraulic_properties docstring |
| z_cn, z_germ, z_top, evap_z_min, evap_z_max | positive depths inside the profile; evap_z_max >= evap_z_min (equal = a fixed evaporation layer) | Notebook 1 soil table |
| initial water content | Prop in {WP,FC,SAT}; Pct 0-100; Num in [WP, SAT] of the layer; Layer method: one value per soil layer; Depth method: ascending depths | Notebook 1, property C03 ("between wilting point and saturation") |
| irrigation | method 0-5; SMT 4 values 0-100; interval >= 1; MaxIrr >= 0; AppEff 50-100; WetSurf 10-100; schedule dates unique, depths >= 0 | IrrigationManagement docstring; irrigation.py assert Irr >= 0 |
| field management | mulch_pct 0-100, f_mulch 0-1, z_bund >= 0 (m; including heights of a millimetre or less), bund_water >= 0 (mm), CN*(1+pct/100) in [20, 98] | Notebook 1 table; property C02 ("effective curve number <= 100") |
| groundwater | dates 'YYYYMMDD', depths > 0 m; first observation on the start date; 'Variable' also has one on the end date and may list its observations in any order (they are date-depth pairs; 'Constant' tables are listed chronologically) | Notebook 1 ("linearly interpolated between these dates") |
| CO2 | default file, constant concentration, or a yearly series covering the window | CO2 docstring |
| window | start < end, both 'YYYY/MM/DD', covered by the weather table, <= 580 years | core.py setters, read_weather_inputs, read_clocks_parameters |
| weather | MinTemp <= MaxTemp, Precipitation >= 0, ReferenceET > 0: the synthetic records keep to the floor of 0.1 that prepare_weather applies, injected calm-day events go down to 0.02 (tables built by hand, which the model accepts) | utils/prepare_weather.py, AquaCropModel docstring |

Deliberately outside the domain (no document promises them): process_outputs=True followed by
more steps; run_model after termination; ET0 <= 0; negative water-table depth; duplicate schedule
dates; weather tables with missing days; 'Num' initial water content outside [WP, SAT]; curve
numbers whose adjusted value exceeds 100; the same Soil object shared by two different
configurations; user code mutating its own entity's list attributes in place; compartment
thickness lists with every entry >= 0.25 m that are shallower than the crop's rooting depth.
"""
from . import boot  # noqa: F401
from aquacrop.entities.crops.crop_params import crop_params as _cp

CROPS = sorted(_cp.keys())
CROP_INFO = {}
for _k in CROPS:
    _v = _cp[_k]
    CROP_INFO[_k] = {
        "CalendarType": int(_v.get("CalendarType")),
        "CropType": int(_v.get("CropType")),
        "CCx": float(_v.get("CCx")),
        "Zmax": float(_v.get("Zmax")),
        "MaturityCD": int(_v.get("MaturityCD") or 130),
        "YldWC": _v.get("YldWC"),
        "WPy": float(_v.get("WPy") or 100),
        "Determinant": int(_v.get("Determinant") or 0),
    }
CAL_CROPS = [c for c in CROPS if CROP_INFO[c]["CalendarType"] == 1]
GDD_CROPS = [c for c in CROPS if CROP_INFO[c]["CalendarType"] == 2]
HIGH_CCX_CROPS = [c for c in CROPS if CROP_INFO[c]["CCx"] > 0.96]
WPY_CROPS = [c for c in CROPS if CROP_INFO[c]["WPy"] < 100 and CROP_INFO[c]["YldWC"]]
INDETERMINATE_CROPS = [c for c in CROPS if CROP_INFO[c]["Determinant"] == 0 and CROP_INFO[c]["YldWC"]]

SOILS = ["Clay", "ClayLoam", "Default", "Loam", "LoamySand", "Sand", "SandyClay", "SandyClayLoam",
         "SandyLoam", "Silt", "SiltClayLoam", "SiltLoam", "SiltClay", "Paddy", "ac_TunisLocal"]

SOIL_CN = {"Clay": 77, "ClayLoam": 72, "Default": 61, "Loam": 61, "LoamySand": 46, "Sand": 46,
           "SandyClay": 77, "SandyClayLoam": 72, "SandyLoam": 46, "Silt": 61, "SiltClayLoam": 72,
           "SiltLoam": 61, "SiltClay": 72, "Paddy": 77, "ac_TunisLocal": 72}

DZ_CHOICES = [
    [0.1] * 12,
    [0.05] * 4 + [0.1] * 10,
    [0.15] * 8,
    [0.1, 0.1, 0.1, 0.15, 0.15, 0.2, 0.2, 0.2],
    [0.2] * 6,
    [0.1] * 6,
    [0.1] * 20,
    [0.05, 0.05, 0.1, 0.1, 0.2, 0.2, 0.2, 0.2, 0.2],
]

SOIL_LAYERS = {"Paddy": 2, "ac_TunisLocal": 2}

_layer_cache = {}


def soil_layer_table(soil_spec):
    """[(wp, fc, sat)] for the layers actually present in the built soil (before deepening)."""
    import json
    from .spec import build_soil
    key = json.dumps(soil_spec, sort_keys=True)
    if key not in _layer_cache:
        s = build_soil(soil_spec)
        s.fill_nan()
        out = []
        for lay in sorted(set(int(x) for x in s.profile.Layer.values)):
            row = s.profile[s.profile.Layer == lay].iloc[0]
            out.append((float(row.th_wp), float(row.th_fc), float(row.th_s)))
        if len(_layer_cache) > 2000:
            _layer_cache.clear()
        _layer_cache[key] = out
    return _layer_cache[key]


# ---------------------------------------------------------------------------------------------
# permitted rejections (property C16): recognised by type AND message AND origin

PERMITTED = [
    ("ValueError", "sim_start_time format must be", ("core.py",)),
    ("ValueError", "sim_end_time format must be", ("core.py",)),
    ("ValueError", "The first date of the climate data cannot be longer", ("read_weather_inputs.py",)),
    ("ValueError", "The model end date cannot be longer than the last date", ("read_weather_inputs.py",)),
    ("ValueError", "Simulation period must be less than 580 years", ("read_clocks_parameters.py",)),
    ("AssertionError", "not enough growing degree days in simulation", ("compute_crop_calendar.py", "reset_initial_conditions.py")),
    ("AssertionError", "crop will take longer than 1 year to mature", ("compute_crop_calendar.py", "reset_initial_conditions.py")),
]


def innermost_aquacrop_frame(exc):
    import traceback
    tb = traceback.extract_tb(exc.__traceback__)
    fr = None
    for f in tb:
        if "/aquacrop/" in f.filename:
            fr = f
    return fr


def classify_exception(exc):
    """-> ("permitted", reason) | ("crash", signature)"""
    import os
    fr = innermost_aquacrop_frame(exc)
    if fr is None:
        # no frame of the repository on the stack: the harness itself failed
        return "harness", f"{type(exc).__name__}:{str(exc)[:120]}"
    fname = os.path.basename(fr.filename) if fr else "?"
    func = fr.name if fr else "?"
    tname = type(exc).__name__
    msg = str(exc)
    for t, stem, files in PERMITTED:
        if tname == t and stem in msg and fname in files:
            return "permitted", f"{t}:{stem}"
    stem = msg.split("\n")[0][:80]
    # strip volatile numbers from the message stem
    import re
    stem = re.sub(r"[-+]?\d+(\.\d+)?([eE][-+]?\d+)?", "#", stem)
    line = (fr.line or "").strip()[:70] if fr else ""
    return "crash", f"{tname}:{stem}@{fname}:{func}:{line}"
