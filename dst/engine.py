"""Batch engine: seeded search over simulated runs, violations -> minimise -> replay, evidence.

One integer decides everything: VERIF_SEED -> run seeds seed*1_000_003 + i; every run draws
all its choices from random.Random(run_seed).  Results are collected by index, never by
completion order.  Worker death / timeouts are harness errors (exit 2), never passes.
"""
import concurrent.futures as cf
import faulthandler
import hashlib
import importlib
import json
import multiprocessing as mp
import os
import random
import signal
import subprocess
import sys
import time
import traceback

from . import boot
from .boot import VERIF, REPO

EVIDENCE_DIR = os.path.join(VERIF, "evidence")
REPLAY_DIR = os.path.join(VERIF, "replays")
KNOWN_FILE = os.path.join(VERIF, "known_findings.json")

CASE_TIMEOUT_S = int(os.environ.get("VERIF_CASE_TIMEOUT_S", "180"))

REAL_STUB = {
    "real": ["every module under aquacrop/ (initialisation, all daily process functions, clock update, outputs), imported from the tree under test"],
    "stub": ["wall clock (aquacrop.core.time -> world counter)",
             "weather source (seeded generator + event injector; bundled station files read through prepare_weather)",
             "irrigation controller of Notebook 2 (seeded controller writing IrrMngt.depth between steps)"],
    "tree": REPO,
}


class CaseTimeout(Exception):
    pass


def _alarm(signum, frame):
    raise CaseTimeout()


def prop_module(pid):
    return importlib.import_module("dst.props." + pid.lower())


def run_seed_of(seed, i):
    return seed * 1_000_003 + i


def canon(obj):
    return json.dumps(obj, sort_keys=True, separators=(",", ":"), default=_json_default)


def _json_default(o):
    import numpy as np
    if isinstance(o, (np.integer,)):
        return int(o)
    if isinstance(o, (np.floating,)):
        return float(o)
    if isinstance(o, (np.bool_,)):
        return bool(o)
    if isinstance(o, np.ndarray):
        return o.tolist()
    return str(o)


def summarise_case(case):
    """small, human-readable view of a case (weather arrays elided)"""
    def strip(x):
        if isinstance(x, dict):
            out = {}
            for k, v in x.items():
                if k in ("tmin", "tmax", "precip", "et0") and isinstance(v, list) and len(v) > 12:
                    out[k] = f"<{len(v)} values>"
                else:
                    out[k] = strip(v)
            return out
        if isinstance(x, list):
            if len(x) > 40:
                return [strip(v) for v in x[:12]] + [f"... {len(x) - 12} more"]
            return [strip(v) for v in x]
        return x
    return strip(case)


def exec_case(pid, case):
    """run one case under the per-case alarm; classify harness exceptions apart from violations"""
    mod = prop_module(pid)
    old = signal.signal(signal.SIGALRM, _alarm)
    timeout_s = int(getattr(mod, "CASE_TIMEOUT_S", CASE_TIMEOUT_S))
    signal.alarm(timeout_s)
    try:
        res = mod.run_case(case)
    except CaseTimeout:
        fr = _innermost_repo_frame(sys.exc_info()[2])
        res = {"status": "timeout", "reason": f"case exceeded {timeout_s}s at {fr}", "violations": [],
               "timeout_at": fr}
        hook = getattr(mod, "on_timeout", None)
        if hook is not None:
            res = hook(case, res)
    finally:
        signal.alarm(0)
        signal.signal(signal.SIGALRM, old)
    res.setdefault("violations", [])
    res.setdefault("status", "ok")
    res.setdefault("nontrivial", [])
    res.setdefault("faults", {})
    res.setdefault("probes", {})
    res.setdefault("days", 0)
    res.setdefault("states", [])
    res.setdefault("evals", 1)
    return res


def _innermost_repo_frame(tb):
    fr = None
    for f in traceback.extract_tb(tb):
        if "/aquacrop/" in f.filename:
            fr = f"{os.path.basename(f.filename)}:{f.name}"
    return fr or "?"


REGRESS_DIR = os.path.join(VERIF, "regress")


def regress_cases(pid):
    d = os.path.join(REGRESS_DIR, pid)
    if not os.path.isdir(d):
        return []
    return [os.path.join(d, f) for f in sorted(os.listdir(d)) if f.endswith(".json")]


def _in_child(fn, *a):
    """run fn(*a) in a forked child and return its (pickled) result: every case executes in a process of its own, so that
    process-global state left behind by the code under test in one case can never reach another case, whichever pool
    worker they share - one seed stays one exactly repeatable execution also on a tree that leaks state"""
    import pickle
    r, w = os.pipe()
    child = os.fork()
    if child == 0:
        code = 0
        try:
            os.close(r)
            try:
                data = pickle.dumps(("ok", fn(*a)))
            except BaseException:  # noqa: BLE001
                data = pickle.dumps(("err", traceback.format_exc()))
            with os.fdopen(w, "wb") as f:
                f.write(data)
        except BaseException:  # noqa: BLE001
            code = 3
        finally:
            os._exit(code)
    os.close(w)
    with os.fdopen(r, "rb") as f:
        data = f.read()
    os.waitpid(child, 0)
    if not data:
        return ("err", "child process died without a result")
    return pickle.loads(data)


def _work(args):
    if os.environ.get("VERIF_FORK_PER_CASE", "1") == "0":
        return _work_inner(args)
    status, out = _in_child(_work_inner, args)
    if status == "ok":
        return out
    return {"idx": args[3], "run_seed": args[1], "harness_error": out}


def exec_case_isolated(pid, case):
    if os.environ.get("VERIF_FORK_PER_CASE", "1") == "0":
        return exec_case(pid, case)
    status, out = _in_child(exec_case, pid, case)
    if status == "ok":
        return out
    raise RuntimeError("case failed in its child process:\n" + str(out))


def _work_inner(args):
    pid, run_seed, tier, idx = args
    faulthandler.enable()
    try:
        mod = prop_module(pid)
        rng = random.Random(run_seed)
        t0 = time.time()
        if isinstance(run_seed, str):
            # committed regression case (explicit, no PRNG)
            with open(run_seed) as f:
                case = json.load(f)["case"]
            case["run_seed"] = "regress:" + os.path.basename(run_seed)
        else:
            case = mod.gen_case(rng, tier, idx)
            case["run_seed"] = run_seed
        res = exec_case(pid, case)
        wall = time.time() - t0
        dig = hashlib.sha256((canon(case) + "|" + canon({k: res.get(k) for k in ("status", "violations", "nontrivial", "faults", "probes", "days", "evals")})).encode()).hexdigest()[:20]
        out = {"idx": idx, "run_seed": run_seed, "res": res, "digest": dig, "wall": wall}
        if res["violations"] or idx < 3:
            out["case"] = case
        return out
    except Exception:
        return {"idx": idx, "run_seed": run_seed, "harness_error": traceback.format_exc()}


def load_known():
    if not os.path.exists(KNOWN_FILE):
        return {"findings": [], "fixed": []}
    with open(KNOWN_FILE) as f:
        return json.load(f)


def match_known(known, pid, sig):
    for k in known.get("findings", []):
        if k["property"] != pid:
            continue
        if k.get("signature") == sig or (k.get("signature_prefix") and sig.startswith(k["signature_prefix"])):
            return k
    return None


# ---------------------------------------------------------------------------------------------
# minimisation

def _same_violation(pid, case, sig):
    try:
        res = exec_case_isolated(pid, case)
    except Exception:
        return None
    for v in res["violations"]:
        if v["sig"] == sig:
            return v
    return None


def minimise(pid, case, sig, budget_s=90):
    """greedy delta debugging over the property's simplifiers while the same signature persists"""
    mod = prop_module(pid)
    simp = getattr(mod, "simplifiers", None)
    if simp is None:
        from .minimize import spec_simplifiers as simp
    t0 = time.time()
    cur = case
    v0 = _same_violation(pid, cur, sig)
    if v0 is None:
        return case, None, 0
    steps = 0
    progress = True
    while progress and time.time() - t0 < budget_s:
        progress = False
        for cand in simp(cur, v0):
            if time.time() - t0 > budget_s:
                break
            v = _same_violation(pid, cand, sig)
            if v is not None:
                cur, v0 = cand, v
                steps += 1
                progress = True
                break
    return cur, v0, steps


def write_replay(pid, case, violation, minimised_steps):
    os.makedirs(REPLAY_DIR, exist_ok=True)
    h = hashlib.sha256(violation["sig"].encode()).hexdigest()[:8]
    tag = str(case.get('run_seed', 0)).replace(":", "-").replace(".json", "").replace("/", "_")
    path = os.path.join(REPLAY_DIR, f"{pid}-{tag}-{h}.json")
    with open(path, "w") as f:
        json.dump({"property": pid, "signature": violation["sig"], "message": violation["msg"],
                   "run_seed": case.get("run_seed"), "minimise_steps": minimised_steps,
                   "case": case}, f, default=_json_default)
    return path


def replay_file(path):
    """fresh-process entry: rebuild the world from the explicit case; no PRNG involved"""
    with open(path) as f:
        rec = json.load(f)
    pid = rec["property"]
    res = exec_case(pid, rec["case"])
    sigs = [v["sig"] for v in res["violations"]]
    return rec, res, rec["signature"] in sigs


def verify_replay_fresh(path):
    """replay in a fresh interpreter; returns True when the same signature is reproduced"""
    env = dict(os.environ)
    env["PYTHONHASHSEED"] = "0"
    p = subprocess.run([sys.executable, "-B", "-W", "ignore", os.path.join(VERIF, "dst", "cli.py"), "replay", path, "--quiet"],
                       env=env, capture_output=True, text=True, timeout=CASE_TIMEOUT_S * 2 + 60)
    return p.returncode == 1 and "REPRODUCED" in p.stdout


# ---------------------------------------------------------------------------------------------

def run_check(pid, tier="quick", seed=0, n=None, budget_s=None, workers=None, write_evidence=True, quiet=False):
    mod = prop_module(pid)
    t0 = time.time()
    n = n or int(os.environ.get("VERIF_N", 0)) or mod.N[tier]
    budget_s = budget_s or float(os.environ.get("VERIF_BUDGET_S", 0)) or mod.BUDGET_S[tier]
    workers = workers or int(os.environ.get("VERIF_WORKERS", 0)) or min(16, os.cpu_count() or 1)
    print(f"VERIF_SEED={seed} property={pid} tier={tier} n={n} budget_s={budget_s} workers={workers} tree={REPO}", flush=True)
    known = load_known()

    # fixed regression seeds first (index < n_fixed use seed 0 so that a regression found once stays found)
    n_fixed = min(n, getattr(mod, "N_FIXED", {}).get(tier, n // 2))
    tasks = []
    reg = regress_cases(pid)
    for i in range(n):
        s = run_seed_of(0, i) if i < n_fixed else run_seed_of(seed, i)
        tasks.append((pid, s, tier, i))
    for j, path in enumerate(reg):
        tasks.append((pid, path, tier, n + j))
    n_random = n
    n = len(tasks)

    results = [None] * n
    harness_errors = []
    ctx = mp.get_context("fork")
    done_n = 0
    with cf.ProcessPoolExecutor(max_workers=workers, mp_context=ctx) as ex:
        futs = {}
        it = iter(tasks[n_random:] + tasks[:n_random])  # committed regression cases first
        inflight = 0
        stop = False
        # bounded submission so that the wall budget can stop the batch
        def submit_more():
            nonlocal inflight, stop
            while inflight < workers * 3 and not stop:
                try:
                    a = next(it)
                except StopIteration:
                    stop = True
                    break
                if time.time() - t0 > budget_s:
                    stop = True
                    break
                futs[ex.submit(_work, a)] = a
                inflight += 1
        submit_more()
        while futs:
            done, _ = cf.wait(list(futs), timeout=CASE_TIMEOUT_S * 2 + 60, return_when=cf.FIRST_COMPLETED)
            if not done:
                harness_errors.append("pool stalled: no worker finished within the stall window")
                for f in futs:
                    f.cancel()
                break
            for f in done:
                a = futs.pop(f)
                inflight -= 1
                try:
                    r = f.result()
                except Exception as e:  # worker died
                    harness_errors.append(f"worker died on idx {a[3]} seed {a[1]}: {e!r}")
                    continue
                if "harness_error" in r:
                    harness_errors.append(f"idx {r['idx']} seed {r['run_seed']}:\n{r['harness_error']}")
                else:
                    results[r["idx"]] = r
                    done_n += 1
            submit_more()

    done = [r for r in results if r is not None]
    # ---- determinism spot check: the first runs are repeated in this (other) process and must give the same digest
    spot = {"repeated": 0, "identical": 0}
    for r in [x for x in results[: min(2, n_random)] if x is not None]:
        again = _work((pid, r["run_seed"], tier, r["idx"]))
        spot["repeated"] += 1
        if again.get("digest") == r["digest"]:
            spot["identical"] += 1
        else:
            harness_errors.append(f"determinism: run seed {r['run_seed']} (index {r['idx']}) gave digest {r['digest']} in a pool worker and {again.get('digest')} in the parent process")
    # ---- aggregate
    agg = {"status": {}, "faults": {}, "probes": {}, "days": 0, "evals": 0}
    nontrivial = set()
    states = set()
    viol_by_sig = {}
    for r in done:
        res = r["res"]
        agg["status"][res["status"]] = agg["status"].get(res["status"], 0) + 1
        if res["status"] != "ok":
            rk = res["status"] + ":" + str(res.get("reason", ""))[:160]
            agg.setdefault("reasons", {})
            agg["reasons"][rk] = agg["reasons"].get(rk, 0) + 1
        for k, v in res["faults"].items():
            agg["faults"][k] = agg["faults"].get(k, 0) + v
        for k, v in res["probes"].items():
            agg["probes"][k] = agg["probes"].get(k, 0) + v
        agg["days"] += res["days"]
        agg["evals"] += res["evals"]
        nontrivial.update(res["nontrivial"])
        states.update(res["states"])
        for v in res["violations"]:
            viol_by_sig.setdefault(v["sig"], []).append((r, v))

    # ---- violations
    new_violations = []
    known_hits = []
    for sig in sorted(viol_by_sig):
        hits = viol_by_sig[sig]
        k = match_known(known, pid, sig)
        if k is not None:
            for j, (kk, c) in enumerate(known_hits):
                if kk is k:
                    known_hits[j] = (kk, c + len(hits))
                    break
            else:
                known_hits.append((k, len(hits)))
            continue
        r, v = hits[0]
        case = r["case"]
        mcase, mv, steps = minimise(pid, case, sig, budget_s=float(os.environ.get("VERIF_MINIMISE_BUDGET_S", 0)) or getattr(mod, "MINIMISE_BUDGET_S", 60))
        if mv is None:
            harness_errors.append(f"violation {sig} of seed {r['run_seed']} did not reproduce in the parent process")
            continue
        path = write_replay(pid, mcase, mv, steps)
        ok = False
        try:
            ok = verify_replay_fresh(path)
        except Exception as e:
            harness_errors.append(f"replay verification failed to run for {path}: {e!r}")
        if not ok:
            harness_errors.append(f"replay {path} did not reproduce signature {sig} in a fresh interpreter")
            continue
        new_violations.append((sig, mv, path, len(hits)))

    for k, cnt in known_hits:
        print(f"KNOWN-FINDING: property={pid} {k['what']} (signature {k.get('signature') or k.get('signature_prefix')}; met {cnt}x)")
    for sig, v, path, cnt in new_violations:
        print(f"VIOLATION property={pid} replay={path}")
        print(f"  signature: {sig}\n  message: {v['msg']}\n  occurrences in this batch: {cnt}")

    wall = time.time() - t0
    # ---- evidence
    samples = []
    for r in done[:3]:
        if "case" in r:
            samples.append({"run_seed": r["run_seed"], "case": summarise_case(r["case"]),
                            "status": r["res"]["status"], "days": r["res"]["days"]})
    if not samples and done:
        samples.append({"run_seed": done[0]["run_seed"], "status": done[0]["res"]["status"]})
    evaluations = agg["evals"]
    cov = {
        "evaluations": int(evaluations),
        "distinct_nontrivial": int(len(nontrivial)),
        "rule": mod.RULE,
        "samples": samples,
        "simulated_runs": len(done),
        "run_status": agg["status"],
        "not_ok_reasons": agg.get("reasons", {}),
        "simulated_days": int(agg["days"]),
        "simulated_years": round(agg["days"] / 365.25, 1),
        "runs_per_hour": int(len(done) / max(wall, 1e-9) * 3600),
        "committed_regression_cases": len(reg),
        "seeds": {"VERIF_SEED": seed, "fixed_regression_runs": n_fixed, "seed_derived_runs": max(0, n_random - n_fixed),
                  "derivation": "run_seed = VERIF_SEED*1000003 + index (fixed runs use VERIF_SEED=0)"},
        "fault_kinds_fired": agg["faults"],
        "rare_condition_probes": agg["probes"],
        "probes_stuck_at_zero": sorted(k for k, v in agg["probes"].items() if v == 0),
        "distinct_state_signatures": len(states),
        "state_signature_measure": getattr(mod, "STATE_MEASURE", "n/a"),
        "components": REAL_STUB,
        "known_findings_met": [{"what": k["what"], "count": c} for k, c in known_hits],
        "violation_signatures": [s for s, _, _, _ in new_violations],
        "harness_errors": len(harness_errors),
        "determinism_spot_check": dict(spot, how="first runs of the batch repeated in the parent process; digests over the explicit case and its result must match (full self-test: ./check selftest-determinism)"),
        "workers": workers,
        "exhaustive": False,
    }
    extra = getattr(mod, "evidence_extra", None)
    if extra is not None:
        cov.update(extra(done))
    ev = {
        "property_id": pid,
        "tier": tier,
        "seed": int(seed),
        "level": mod.LEVEL,
        "coverage": cov,
        "assumptions": list(getattr(mod, "ASSUMPTIONS", [])) + [
            "a clean batch is evidence, not proof: the space of configurations, weather and schedules is sampled",
            "harness-side seams (rebinding of process functions in the time-step module namespace, virtual wall clock) observe but do not alter the computation",
        ],
        "wall_s": round(wall, 2),
        "violations": len(new_violations),
    }
    if write_evidence and not os.environ.get("VERIF_NO_EVIDENCE"):
        os.makedirs(EVIDENCE_DIR, exist_ok=True)
        with open(os.path.join(EVIDENCE_DIR, f"{pid}.json"), "w") as f:
            json.dump(ev, f, indent=1, default=_json_default)
    print(f"summary property={pid} runs={len(done)}/{n} evaluations={evaluations} distinct_nontrivial={len(nontrivial)} "
          f"days={agg['days']} status={agg['status']} violations={len(new_violations)} known={len(known_hits)} "
          f"harness_errors={len(harness_errors)} wall={wall:.1f}s", flush=True)
    zero = cov["probes_stuck_at_zero"]
    if zero and tier == "thorough":
        print(f"WARNING: probes stuck at zero: {zero}")
    if harness_errors:
        for h in harness_errors[:10]:
            print("HARNESS-ERROR:", h)
        return 2
    if len(done) < n and not (time.time() - t0 > budget_s):
        print("HARNESS-ERROR: not all runs completed")
        return 2
    return 1 if new_violations else 0
