"""Environment process: seeded daily weather generator + event injector.

All randomness comes from the `random.Random` handed in (one integer decides everything);
numpy's Generator is seeded from it.  Output is explicit arrays (rounded like station files)
so that replay files do not depend on this code.
"""
import datetime as _dt
import math
import os

from . import boot
import numpy as np

ARCHETYPES = {
    # name: (Tmean, Tamp (annual), diurnal range, p_wet|dry, p_wet|wet, rain shape, rain scale, et0 mean, et0 amp, peak month)
    "temperate":   dict(tm=11.0, ta=8.0, dr=9.0, pwd=0.30, pww=0.60, k=0.7, sc=7.0, em=2.2, ea=1.8, south=False),
    "semiarid":    dict(tm=19.0, ta=9.0, dr=13.0, pwd=0.06, pww=0.35, k=0.6, sc=12.0, em=5.0, ea=3.0, south=False),
    "tropical":    dict(tm=27.0, ta=2.0, dr=8.0, pwd=0.35, pww=0.70, k=0.6, sc=18.0, em=4.2, ea=1.0, south=False),
    "continental": dict(tm=8.0, ta=15.0, dr=11.0, pwd=0.22, pww=0.50, k=0.7, sc=8.0, em=2.8, ea=2.6, south=False),
    "warm":        dict(tm=22.0, ta=5.0, dr=10.0, pwd=0.20, pww=0.55, k=0.7, sc=10.0, em=4.5, ea=1.5, south=False),
}

STATIONS = ["tunis_climate.txt", "champion_climate.txt", "brussels_climate.txt",
            "hyderabad_climate.txt", "cordoba_climate.txt"]

_station_cache = {}


def _station(name):
    if name not in _station_cache:
        from aquacrop.utils import prepare_weather, get_filepath
        df = prepare_weather(get_filepath(name))
        _station_cache[name] = df
    return _station_cache[name]


def make_weather(rng, first, last, archetype=None, station_p=0.2):
    """first/last: datetime.date inclusive.  Returns weather dict."""
    n = (last - first).days + 1
    if archetype is None:
        if rng.random() < station_p:
            archetype = "station:" + rng.choice(STATIONS)
        else:
            archetype = rng.choice(sorted(ARCHETYPES))
    if archetype.startswith("station:"):
        df = _station(archetype.split(":", 1)[1])
        # start at the first record with the same month/day, wrap around if needed
        md = (df.Date.dt.month.values == first.month) & (df.Date.dt.day.values == (first.day if not (first.month == 2 and first.day == 29) else 28))
        idxs = np.flatnonzero(md)
        i0 = int(idxs[rng.randrange(len(idxs))]) if len(idxs) else 0
        sel = (np.arange(n) + i0) % len(df)
        w = {
            "start": f"{first.year:04d}/{first.month:02d}/{first.day:02d}",
            "kind": archetype,
            "tmin": [round(float(x), 2) for x in df.MinTemp.values[sel]],
            "tmax": [round(float(x), 2) for x in df.MaxTemp.values[sel]],
            "precip": [round(float(x), 2) for x in df.Precipitation.values[sel]],
            "et0": [round(max(0.1, float(x)), 2) for x in df.ReferenceET.values[sel]],
        }
        # guard station oddities: tmin<=tmax
        for i in range(n):
            if w["tmin"][i] > w["tmax"][i]:
                w["tmin"][i], w["tmax"][i] = w["tmax"][i], w["tmin"][i]
        return w
    a = ARCHETYPES[archetype]
    g = np.random.Generator(np.random.PCG64(rng.getrandbits(63)))
    doy0 = first.timetuple().tm_yday
    t = np.arange(n) + doy0
    phase = 2 * math.pi * (t - 200) / 365.25  # peak late July
    if rng.random() < 0.25:
        phase = phase + math.pi  # southern-hemisphere phase
    season = np.cos(phase)
    noise = np.zeros(n)
    e = g.normal(0, 2.2, n)
    for i in range(n):
        noise[i] = (0.7 * noise[i - 1] if i else 0.0) + e[i]
    tmean = a["tm"] + a["ta"] * season + noise
    dr = np.clip(a["dr"] + g.normal(0, 2.0, n), 2.0, None)
    tmax = tmean + dr / 2
    tmin = tmean - dr / 2
    wet = np.zeros(n, dtype=bool)
    u = g.random(n)
    for i in range(n):
        p = a["pww"] if (i and wet[i - 1]) else a["pwd"]
        wet[i] = u[i] < p
    rain = np.where(wet, g.gamma(a["k"], a["sc"], n), 0.0)
    et0 = a["em"] + a["ea"] * season + g.normal(0, 0.5, n) - 0.6 * wet
    et0 = np.clip(et0, 0.1, None)
    # some stations report whole degrees: degree-day sums then land exactly on integer thresholds
    nd = 0 if rng.random() < 0.15 else 1
    return {
        "start": f"{first.year:04d}/{first.month:02d}/{first.day:02d}",
        "kind": archetype,
        "tmin": [round(float(x), nd) for x in tmin],
        "tmax": [round(float(x), nd) for x in tmax],
        "precip": [round(float(x), 1) for x in rain],
        "et0": [round(float(x), 2) for x in et0],
    }


EVENT_KINDS = ["storm", "wet_spell", "drought", "heat_wave", "cold_snap", "et0_spike", "et0_floor", "dry_then_wet"]


def make_event(rng, kind, day):
    if kind == "storm":
        return {"kind": kind, "day": day, "len": rng.choice([1, 1, 1, 2, 3]), "mag": round(rng.uniform(80, 300), 1)}
    if kind == "wet_spell":
        return {"kind": kind, "day": day, "len": rng.randint(5, 20), "mag": round(rng.uniform(10, 40), 1)}
    if kind == "drought":
        return {"kind": kind, "day": day, "len": rng.choice([30, 60, 90, 150, 250, 400]), "mag": 0.0}
    if kind == "dry_then_wet":
        # a dry spell followed at once by a wet spell (re-watering after stress): len = dry days, then 12 wet days of `mag` mm
        return {"kind": kind, "day": day, "len": rng.choice([20, 35, 50, 70]) + 12, "mag": round(rng.uniform(8, 30), 1)}
    if kind == "heat_wave":
        return {"kind": kind, "day": day, "len": rng.randint(3, 15), "mag": round(rng.uniform(8, 16), 1)}
    if kind == "cold_snap":
        return {"kind": kind, "day": day, "len": rng.randint(3, 20), "mag": round(rng.uniform(8, 22), 1)}
    if kind == "et0_spike":
        return {"kind": kind, "day": day, "len": rng.randint(1, 10), "mag": round(rng.uniform(8, 14), 1)}
    if kind == "et0_floor":
        # calm, humid days: down to the floor prepare_weather applies (0.1), and below it for tables built by hand
        return {"kind": kind, "day": day, "len": rng.randint(1, 10), "mag": rng.choice([0.1, 0.1, 0.05, 0.02])}
    raise ValueError(kind)


def inject(w, ev):
    """apply event in place; returns the number of days actually touched (fired)"""
    n = len(w["tmin"])
    a = max(0, ev["day"])
    b = min(n, ev["day"] + ev["len"])
    k = ev["kind"]
    for i in range(a, b):
        if k == "storm":
            w["precip"][i] = ev["mag"]
        elif k == "wet_spell":
            w["precip"][i] = ev["mag"]
            w["et0"][i] = round(max(0.1, w["et0"][i] * 0.6), 2)
        elif k == "drought":
            w["precip"][i] = 0.0
        elif k == "dry_then_wet":
            w["precip"][i] = 0.0 if i < ev["day"] + ev["len"] - 12 else ev["mag"]
        elif k == "heat_wave":
            w["tmax"][i] = round(w["tmax"][i] + ev["mag"], 1)
            w["tmin"][i] = round(w["tmin"][i] + ev["mag"] / 2, 1)
        elif k == "cold_snap":
            w["tmax"][i] = round(w["tmax"][i] - ev["mag"], 1)
            w["tmin"][i] = round(w["tmin"][i] - ev["mag"], 1)
        elif k == "et0_spike":
            w["et0"][i] = ev["mag"]
        elif k == "et0_floor":
            w["et0"][i] = float(ev.get("mag") or 0.1)
    return max(0, b - a)
