"""C09 - step-wise execution equals one uninterrupted run (kind A, exploration with exhaustive sub-spaces).

Schedules: S1 step partitions (random, boundary-aligned, all compositions of short windows,
all compositions of the last steps before a harvest / termination forked from a deepcopy
checkpoint), S2 first call initialises, S4 neighbour noise between calls.
"""
import itertools
import random

from .common import config_sig, gen_controller
from ..gen import gen_spec
from ..node import Node, run_reference, diff_tables, fork
from ..domain import classify_exception
from ..engine import CaseTimeout
from ..spec import Objects

ID = "C09"
LEVEL = "exploration"
N = {"quick": 44, "thorough": 4000}
BUDGET_S = {"quick": 150, "thorough": 1500}
CASE_TIMEOUT_S = 420
RULE = ("each case = one bundle spec + a set of schedules: random partitions of the run into run_model(num_steps=k_i, "
        "initialize_model=False) calls (k from {1, small, large, overshoot}), partitions cut on / one before / one after every "
        "harvest step of the reference run, first-call-initialises variants, neighbour noise between calls (entity construction, "
        "an unrelated model run, getter calls), all 2^(n-1) compositions of windows of n <= 9 days, and all compositions of the "
        "last <= 7 steps before a harvest or before termination forked from a deepcopy checkpoint (fork fidelity itself checked). "
        "evaluations = schedules executed; a schedule is non-trivial when at least one call crossed a season boundary or ended "
        "exactly on termination; distinct = distinct (configuration signature, schedule) pairs")
PROFILE = {"n_seasons": [1, 1, 2, 2, 3], "off_season_p": 0.5, "events_per_year": 1.0, "end_kinds": ["after", "mid", "harvestish", "eoy"]}


def _compositions(n):
    for bits in itertools.product([0, 1], repeat=n - 1):
        parts, cur = [], 1
        for b in bits:
            if b:
                parts.append(cur)
                cur = 1
            else:
                cur += 1
        parts.append(cur)
        yield parts


def gen_case(rng, tier, idx):
    prof = dict(PROFILE)
    short = idx % 4 == 3
    if short:
        from ..domain import CAL_CROPS
        prof["crops"] = CAL_CROPS
    spec = gen_spec(rng, prof)
    if short:
        # short window (3..9 days) for exhaustive compositions; it must contain a planting date (a window without one is
        # a known C16 finding), which lands on day 0 .. n-1 of the window, so the compositions cut before, on and after
        # the first in-season day
        import datetime as dt
        from ..spec import parse_date, fmt_date
        from ..gen import planting_dates
        n = rng.randint(3, 9)
        pl = planting_dates(spec)
        s = pl[0] - dt.timedelta(days=rng.randint(0, n - 1)) if pl else parse_date(spec["start"])
        spec["start"] = fmt_date(s)
        spec["end"] = fmt_date(s + dt.timedelta(days=n))
        if parse_date(spec["weather"]["start"]) > s:
            spec["weather"]["start"] = fmt_date(s)
        if spec.get("gw"):
            spec["gw"] = {"water_table": "Y", "method": "Constant", "dates": [spec["start"].replace("/", "")], "values": spec["gw"]["values"][:1]}
    scheds = []
    nrand = 4 if tier == "quick" else 8
    for _ in range(nrand):
        scheds.append({"kind": rng.choice(["ones", "small", "medium", "mixed", "mixed", "large", "overshoot"]), "seed": rng.getrandbits(32),
                       "first_call_init": rng.random() < 0.4, "noise": rng.random() < 0.35})
    return {"spec": spec, "short": short, "schedules": scheds, "suffix_k": rng.choice([4, 5, 6, 7]),
            "controller": gen_controller(rng, spec)}


def _noise(rng, node):
    """S4: things a neighbour in the same process might do between two calls"""
    from aquacrop import Soil, Crop, IrrigationManagement, GroundWater, InitialWaterContent, CO2, FieldMngt
    r = rng.random()
    if r < 0.3:
        Soil(rng.choice(["SandyLoam", "Clay", "Paddy"])); Crop(node.spec["crop"]["name"], planting_date="06/01")
        IrrigationManagement(irrigation_method=rng.choice([0, 1, 3])); GroundWater(); InitialWaterContent(); FieldMngt()
        return "construct"
    if r < 0.6:
        m = node.model
        m.get_water_flux(); m.get_water_storage(); m.get_crop_growth(); m.get_simulation_results(); m.get_additional_information()
        return "getters"
    if r < 0.7:
        CO2()
        return "co2"
    return "none"


def _steps(rng, kind):
    while True:
        if kind == "ones":
            yield 1
        elif kind == "small":
            yield rng.randint(1, 7)
        elif kind == "medium":
            yield rng.randint(8, 60)
        elif kind == "mixed":
            yield rng.choice([1, 1, 2, 3, 10, 30, 90, 400, rng.randint(1, 40), rng.randint(1, 40)])
        elif kind == "large":
            yield rng.choice([30, 100, 365, 1000])
        else:
            yield rng.choice([1, 5, 100000])


def _apply_controller(node, table):
    if not table:
        return None

    def hook(n, rec):
        x = table.get(rec.t + 1)
        if x is not None:
            n.model._param_struct.IrrMngt.depth = x
    return hook


def _drive(spec, ref, ref_steps, parts, first_call_init, noise_rng, ctrl, res, label, cross_marks):
    """execute one schedule on a fresh node; returns violation or None.  parts: iterator of k"""
    node = Node(spec, probes=("days",) if ctrl else ())
    if ctrl:
        node.day_hooks.append(ctrl)
        node.day_hooks.append(lambda n, rec: n.records.clear())
    done = 0
    calls = []
    nontrivial = False
    if not first_call_init:
        node.initialize()
    first = True
    while True:
        k = next(parts)
        if first and first_call_init:
            node.first_call(k)
        else:
            node.step(k)
        first = False
        calls.append(k)
        before = done
        done = node.steps_done
        if any(before < m < done for m in cross_marks) or (done == ref_steps):
            nontrivial = True
        info = node.model.get_additional_information()
        sim = node.model.get_simulation_results()
        should_finish = done >= ref_steps
        if done > ref_steps:
            return {"sig": "C09:overshoot", "msg": f"{label} calls={calls[-6:]}: {done} steps executed, the uninterrupted run has {ref_steps}"}, nontrivial, calls
        if bool(info["has_model_finished"]) != should_finish or (sim is not False) != should_finish:
            return {"sig": "C09:status", "msg": f"{label} after calls {calls[-6:]} ({done}/{ref_steps} steps): has_model_finished={info['has_model_finished']}, summary {'present' if sim is not False else 'absent'}"}, nontrivial, calls
        if should_finish:
            break
        if len(calls) > ref_steps + 5:
            return {"sig": "C09:no-progress", "msg": f"{label}: {len(calls)} calls, {done}/{ref_steps} steps"}, nontrivial, calls
        if noise_rng is not None:
            kind = _noise(noise_rng, node)
            res["faults"]["noise:" + kind] = res["faults"].get("noise:" + kind, 0) + 1
    d = diff_tables(ref, node.tables(), strict_types=True)
    if d is not None:
        return {"sig": "C09:tables-differ", "msg": f"{label} calls={calls[:8]}{'...' if len(calls) > 8 else ''} ({len(calls)} calls): {d}"}, nontrivial, calls
    return None, nontrivial, calls


def run_case(case):
    spec = case["spec"]
    res = {"status": "ok", "violations": [], "faults": {}, "probes": {}, "days": 0, "nontrivial": [], "evals": 0}
    table = {int(d): float(x) for d, x in (case.get("controller") or [])}
    ctrl = _apply_controller(None, table)
    try:
        refnode = Node(spec, probes=("days",))
        if ctrl:
            refnode.day_hooks.append(ctrl)
        harvest_steps = []
        refnode.day_hooks.append(lambda n, rec: n.records.clear())
        refnode.run_to_end()
        ref = refnode.tables()
        ref_steps = refnode.steps_done
        harvest_steps = [i + 1 for i, fc in enumerate(refnode.finish_checks) if fc["harvest_flag"]]
        # marks: number of executed steps after which a harvest happened
        seen = set()
        marks = []
        for m in harvest_steps:
            if m not in seen and (not marks or m != marks[-1]):
                marks.append(m)
        # keep only the first step of each harvest (flag stays set afterwards)
        firsts = []
        prevm = None
        for m in marks:
            if prevm is None or m != prevm + 1:
                firsts.append(m)
            prevm = m
        marks = firsts
        res["days"] += ref_steps
        csig = config_sig(spec)

        def record(v, nontriv, label, calls):
            res["evals"] += 1
            if nontriv:
                res["nontrivial"].append(csig + "#" + label + ":" + ",".join(str(c) for c in calls[:12]))
            if v is not None and not any(x["sig"] == v["sig"] for x in res["violations"]):
                v["where"] = {}
                res["violations"].append(v)

        # 1. random partitions
        for sc in case["schedules"]:
            rng = random.Random(sc["seed"])
            res["faults"]["partition:" + sc["kind"]] = res["faults"].get("partition:" + sc["kind"], 0) + 1
            if sc["first_call_init"]:
                res["faults"]["first_call_initialises"] = res["faults"].get("first_call_initialises", 0) + 1
            v, nt, calls = _drive(spec, ref, ref_steps, _steps(rng, sc["kind"]), sc["first_call_init"],
                                  random.Random(sc["seed"] ^ 0x5A5A) if sc["noise"] else None, ctrl, res, "random:" + sc["kind"], marks)
            res["days"] += ref_steps
            record(v, nt, "r" + sc["kind"], calls)
        # 2. boundary-aligned cuts: on / one before / one after each harvest step and termination
        cuts = set()
        for m in marks + [ref_steps]:
            for dlt in (-1, 0, 1):
                if 0 < m + dlt < ref_steps:
                    cuts.add(m + dlt)
        if cuts:
            cl = sorted(cuts)
            parts = [b - a for a, b in zip([0] + cl, cl + [ref_steps])]
            parts = [p for p in parts if p > 0]
            res["faults"]["partition:boundary-aligned"] = res["faults"].get("partition:boundary-aligned", 0) + 1
            v, nt, calls = _drive(spec, ref, ref_steps, iter(parts + [1] * 5), False, None, ctrl, res, "boundary", marks)
            res["days"] += ref_steps
            record(v, True, "b", calls)
        # 3. exhaustive compositions of a short window
        if case.get("short") and ref_steps <= 9:
            res["faults"]["partition:all-compositions"] = res["faults"].get("partition:all-compositions", 0) + 1
            res["probes"]["exhaustive_short_windows"] = 1
            for parts in _compositions(ref_steps):
                for fci in (False, True):
                    v, nt, calls = _drive(spec, ref, ref_steps, iter(parts + [1] * 3), fci, None, ctrl, res, "composition", marks)
                    res["days"] += ref_steps
                    record(v, True, "c" + str(int(fci)), calls)
        # 4. exhaustive compositions of the last K steps before each harvest / termination, from a fork
        K = int(case.get("suffix_k", 5))
        targets = [m for m in marks if m > K] + ([ref_steps] if ref_steps > K else [])
        targets = sorted(set(targets))[:3]
        for tgt in targets:
            base = Node(spec, probes=("days",) if ctrl else ())
            if ctrl:
                base.day_hooks.append(ctrl)
                base.day_hooks.append(lambda n, rec: n.records.clear())
            base.initialize()
            if tgt - K > 0:
                base.step(tgt - K)
            res["days"] += tgt - K
            # fork fidelity: forked continuation in one call must equal the reference
            f0 = fork(base)
            f0.step(100000)
            d = diff_tables(ref, f0.tables())
            if d is not None:
                res["probes"]["fork_infidelity"] = res["probes"].get("fork_infidelity", 0) + 1
                break  # the fork is not faithful for this bundle: skip the forked schedules (not a verdict)
            res["faults"]["fork-checkpoint"] = res["faults"].get("fork-checkpoint", 0) + 1
            for parts in _compositions(K):
                f = fork(base)
                f.steps_done = base.steps_done
                calls = []
                bad = None
                for k in parts + [100000]:
                    f.step(k)
                    calls.append(k)
                    info = f.model.get_additional_information()
                    sim = f.model.get_simulation_results()
                    fin_expected = f.steps_done >= ref_steps
                    if bool(info["has_model_finished"]) != fin_expected or (sim is not False) != fin_expected:
                        bad = {"sig": "C09:status", "msg": f"fork@{tgt - K} calls {calls}: has_model_finished={info['has_model_finished']} after {f.steps_done}/{ref_steps} steps"}
                        break
                    if fin_expected:
                        break
                if bad is None:
                    d = diff_tables(ref, f.tables(), strict_types=True)
                    if d is not None:
                        bad = {"sig": "C09:tables-differ", "msg": f"fork@{tgt - K} then calls {calls}: {d}"}
                res["days"] += ref_steps - (tgt - K)
                record(bad, True, f"s{tgt}", calls)
            res["probes"]["exhaustive_suffixes"] = res["probes"].get("exhaustive_suffixes", 0) + 1
    except CaseTimeout:
        raise
    except Exception as e:  # noqa: BLE001
        kind, sig = classify_exception(e)
        if kind == "harness":
            raise
        res["status"] = "rejected" if kind == "permitted" else "aborted"
        res["reason"] = sig
    return res
