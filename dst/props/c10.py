"""C10 - runs are deterministic and model instances are isolated (kind A, exploration).

Experiments (all seeded): S6 interpreter restarts under PRNG-chosen hash seeds; S3/S4
interleaving of 2-6 nodes that collide on process-global objects, with neighbour noise;
S5 worker assignment of a batch of bundles to 1..W fresh interpreters in PRNG order.  The
oracle is always the digest the spec produces alone in a fresh interpreter.
"""
import hashlib
import json
import os
import random
import subprocess
import sys
import tempfile

from .common import config_sig
from ..gen import gen_spec
from ..node import Node, digest_tables
from ..spec import clone, canon
from ..domain import classify_exception, CROP_INFO, CAL_CROPS, GDD_CROPS
from ..engine import CaseTimeout
from ..boot import VERIF

ID = "C10"
LEVEL = "exploration"
N = {"quick": 64, "thorough": 1500}
BUDGET_S = {"quick": 150, "thorough": 1500}
CASE_TIMEOUT_S = 400
RULE = ("three seeded experiments: (hashseed) one bundle run in 3 fresh interpreters under PRNG-chosen PYTHONHASHSEED values; "
        "(interleave) a world of 2-6 nodes chosen to collide on process-global objects (same crop name with different overrides, same "
        "soil type with different compartment lists, default-constructed GroundWater/InitialWaterContent, calendar and thermal "
        "variants of one crop) whose construction, initialisation and stepping are interleaved in PRNG order with neighbour noise "
        "(entity construction, unrelated full runs, getters); (workers) a batch of bundles dealt to 1..5 fresh interpreters in PRNG "
        "order, each running its share sequentially. Every result must equal the digest its spec gives alone in a fresh interpreter. "
        "evaluations = (bundle, schedule) digests compared; non-trivial = the bundle ran after/between other bundles in the same "
        "process; distinct = distinct (configuration signature, experiment, position)")
ASSUMPTIONS = ["fresh interpreters are real subprocesses of /venv/bin/python; which bundle goes to which interpreter in which order is decided by the PRNG"]
PROFILE = {"n_seasons": [1, 1, 2], "events_per_year": 1.0, "end_kinds": ["after", "eoy"], "gw": 0.2, "custom_soil_p": 0.15, "co2_p": 0.3}


def _solo(specs_lists, hashseeds=None):
    """run each list of specs in its own fresh interpreter (in parallel); returns list of digest lists"""
    procs = []
    files = []
    for i, specs in enumerate(specs_lists):
        f = tempfile.NamedTemporaryFile("w", suffix=".json", delete=False, dir=os.environ.get("VERIF_SCRATCH") or None)
        json.dump(specs, f)
        f.close()
        files.append(f.name)
        env = dict(os.environ)
        env["PYTHONHASHSEED"] = str(hashseeds[i] if hashseeds else 0)
        procs.append(subprocess.Popen([sys.executable, "-B", "-W", "ignore", os.path.join(VERIF, "dst", "solo.py"), f.name],
                                      env=env, stdout=subprocess.PIPE, stderr=subprocess.PIPE, text=True))
    outs = []
    for p, fn in zip(procs, files):
        try:
            so, se = p.communicate(timeout=300)
        finally:
            try:
                os.unlink(fn)
            except OSError:
                pass
        line = [l for l in so.splitlines() if l.startswith("DIGESTS ")]
        if p.returncode != 0 or not line:
            raise RuntimeError(f"solo interpreter failed rc={p.returncode}: {se[-400:]}")
        outs.append(json.loads(line[0][8:]))
    return outs


SAME_LEN_DZ = [[0.1] * 12, [0.05] * 4 + [0.1] * 4 + [0.2] * 4, [0.15] * 12, [0.1] * 6 + [0.2] * 6, [0.05] * 2 + [0.1] * 8 + [0.15] * 2]


def _variants(rng, base, k):
    """specs that collide with `base` on process-global objects or on anything a too-coarse cache key might ignore:
    each variant differs from the base in ONE attribute and agrees on everything else (same names, same lengths)"""
    out = [base]
    tries = 0
    while len(out) < k and tries < 50:
        tries += 1
        s = clone(base)
        r = rng.random()
        if len(out) == 1:
            # the first variant always collides on one of the two process-global objects the property names:
            # the crop catalogue entry (same crop, different override) or the compartment list (same soil, same length)
            r = rng.choice([0.05, 0.25])
        name = s["crop"]["name"]
        if r < 0.18:
            key = rng.choice(["CCx", "Zmax", "WP", "HI0", "Aer", "Zmin"])
            val = {"CCx": rng.choice([0.7, 0.85, 0.9]), "Zmax": rng.choice([0.8, 1.0]), "WP": rng.choice([15.0, 30.0]),
                   "HI0": rng.choice([0.3, 0.45]), "Aer": rng.choice([2, 8]), "Zmin": rng.choice([0.2, 0.25])}[key]
            s["crop"]["overrides"] = dict(s["crop"].get("overrides") or {}, **{key: val})
        elif r < 0.36 and s["soil"]["type"] not in ("custom", "ac_TunisLocal"):
            # same soil type, same NUMBER of compartments, different thicknesses (and sometimes a different number)
            pool = SAME_LEN_DZ if rng.random() < 0.75 else [[0.05] * 4 + [0.1] * 10, [0.1] * 20]
            cur = (s["soil"].get("kwargs") or {}).get("dz", [0.1] * 12)
            cand = [d for d in pool if d != cur]
            s["soil"]["kwargs"] = dict(s["soil"].get("kwargs") or {}, dz=list(rng.choice(cand)))
        elif r < 0.46 and s["soil"]["type"] != "custom":
            key = rng.choice(["cn", "z_cn", "adj_cn", "z_top", "rew", "adj_rew"])
            val = {"cn": rng.choice([50, 80]), "z_cn": rng.choice([0.2, 0.5]), "adj_cn": rng.choice([0, 1]), "z_top": rng.choice([0.2, 0.3]),
                   "rew": rng.choice([5, 12]), "adj_rew": rng.choice([0, 1])}[key]
            kw = dict(s["soil"].get("kwargs") or {})
            if kw.get(key) == val:
                continue
            kw[key] = val
            s["soil"]["kwargs"] = kw
        elif r < 0.56:
            twin = name[:-3] if name.endswith("GDD") else name + "GDD"
            if twin not in CROP_INFO:
                continue
            s["crop"]["name"] = twin
        elif r < 0.66:
            s["gw"] = None if s.get("gw") else {"water_table": "Y", "method": "Constant", "dates": [s["start"].replace("/", "")], "values": [rng.choice([1.0, 2.0])]}
        elif r < 0.74 and s.get("gw"):
            s["gw"] = dict(s["gw"], values=[round(v + rng.choice([0.3, 0.7]), 2) for v in s["gw"]["values"]])
        elif r < 0.82:
            if rng.random() < 0.5:
                s["irr"] = {"method": rng.choice([0, 1, 4]), "kwargs": {}, "schedule": None}
            else:
                # same optional settings, another strategy - or the same strategy with one optional setting changed
                kw = dict(s["irr"].get("kwargs") or {})
                if rng.random() < 0.5 or s["irr"]["method"] in (0, 3):
                    s["irr"] = {"method": rng.choice([m for m in (1, 2, 4, 5) if m != s["irr"]["method"]]), "kwargs": kw, "schedule": None}
                    if s["irr"]["method"] == 1:
                        s["irr"]["kwargs"].setdefault("SMT", [60] * 4)
                else:
                    key = rng.choice(["WetSurf", "AppEff", "MaxIrr"])
                    kw[key] = rng.choice({"WetSurf": [20, 50, 80], "AppEff": [60, 75, 90], "MaxIrr": [10, 30, 60]}[key])
                    s["irr"] = dict(s["irr"], kwargs=kw)
        elif r < 0.90:
            iw = s["iwc"]
            if iw["wc_type"] == "Prop":
                iw["value"] = [rng.choice([v2 for v2 in ("WP", "FC", "SAT") if v2 != v]) for v in iw["value"]]
            elif iw["wc_type"] == "Pct":
                iw["value"] = [max(0, min(100, v + rng.choice([-20, 20]))) for v in iw["value"]]
            else:
                continue
        else:
            # same dates, different weather values
            w = s["weather"]
            w["precip"] = [round(x * 1.5, 1) for x in w["precip"]]
            w["et0"] = [round(max(0.1, x * 0.8), 2) for x in w["et0"]]
        if any(canon(s) == canon(o) for o in out):
            continue
        out.append(s)
    return out


def gen_case(rng, tier, idx):
    exp = ["hashseed", "interleave", "interleave", "workers"][idx % 4]
    base = gen_spec(rng, PROFILE)
    case = {"exp": exp, "seed": rng.getrandbits(32)}
    if exp == "hashseed":
        if (idx // 4) % 2 == 1:
            # inputs whose treatment could depend on the order of a hash-based container: a groundwater log with the same date
            # entered more than once (a correction appended to the log), repeated schedule dates are excluded (irrigation.py
            # documents unique dates)
            from ..gen import gen_gw
            g = None
            for _ in range(6):
                g = gen_gw(rng, dict(PROFILE, gw=1.0), base)
                if len(g["dates"]) >= 2:
                    break
            if g and len(g["dates"]) >= 2:
                for _ in range(rng.randint(1, 3)):
                    j = rng.randrange(len(g["dates"]))
                    pos = rng.randrange(len(g["dates"]) + 1)
                    g["dates"].insert(pos, g["dates"][j])
                    g["values"].insert(pos, round(g["values"][j] + rng.choice([-0.4, 0.3, 0.8, 1.3]), 2) if g["values"][j] > 0.6 else round(g["values"][j] + 0.5, 2))
                base["gw"] = g
        case["specs"] = [base]
        case["hashseeds"] = [rng.randrange(1, 2 ** 31) for _ in range(3)]
    elif exp == "interleave":
        case["specs"] = _variants(rng, base, rng.randint(2, 5 if tier == "quick" else 6))
    else:
        m = rng.choice([6, 8, 12] if tier == "quick" else [16, 32, 64])
        specs = _variants(rng, base, max(2, m // 3))
        while len(specs) < m:
            specs.append(gen_spec(rng, PROFILE))
        rng.shuffle(specs)
        case["specs"] = specs
        case["workers"] = rng.choice([1, 2, 3, 5])
    return case


def _global_digest():
    from aquacrop.entities.crops.crop_params import crop_params
    from aquacrop import Soil, GroundWater, InitialWaterContent, AquaCropModel, Crop, IrrigationManagement, FieldMngt, CO2
    h = hashlib.sha256()
    h.update(json.dumps(crop_params, sort_keys=True, default=str).encode())
    for cls in (Soil, GroundWater, InitialWaterContent, Crop, IrrigationManagement, FieldMngt, CO2):
        h.update(repr(cls.__init__.__defaults__).encode())
    h.update(repr(sorted((k, repr(v)) for k, v in AquaCropModel.__dict__.items() if k.startswith("_AquaCropModel__"))).encode())
    return h.hexdigest()[:16]


def _noise(rng, specs):
    from aquacrop import Soil, Crop, IrrigationManagement, GroundWater, InitialWaterContent, CO2, FieldMngt
    r = rng.random()
    if r < 0.4:
        s = rng.choice(specs)
        Soil(s["soil"]["type"]) if s["soil"]["type"] != "custom" else Soil("Loam")
        Soil(rng.choice(["Clay", "Sand", "Paddy", "SandyLoam"]), dz=list(rng.choice(SAME_LEN_DZ)))
        Crop(s["crop"]["name"], planting_date="06/01")
        Crop(s["crop"]["name"], planting_date="03/01", **{rng.choice(["CCx", "WP", "Zmax"]): rng.choice([0.7, 0.9])})
        GroundWater(); InitialWaterContent(); FieldMngt()
        GroundWater(water_table="Y", dates=["20000101"], values=[rng.choice([1.0, 2.5])])
        InitialWaterContent(wc_type="Pct", value=[rng.choice([20, 60])])
        FieldMngt(mulches=True, bunds=True, z_bund=0.1, mulch_pct=rng.choice([30, 80]))
        # every irrigation strategy, with and without the optional settings
        for m in range(6):
            IrrigationManagement(irrigation_method=m)
            IrrigationManagement(irrigation_method=m, WetSurf=rng.choice([20, 60]), AppEff=rng.choice([60, 80]), MaxIrr=rng.choice([10, 40]),
                                 SMT=[50] * 4, IrrInterval=5, NetIrrSMT=60, depth=3)
        return "construct"
    if r < 0.55:
        CO2()
        return "co2"
    if r < 0.7:
        # an unrelated full run
        s = clone(rng.choice(specs))
        try:
            n = Node(s)
            n.run_to_end()
        except Exception as e:  # noqa: BLE001
            if classify_exception(e)[0] == "harness":
                raise
        return "unrelated_run"
    return "none"


def run_case(case):
    res = {"status": "ok", "violations": [], "faults": {}, "probes": {}, "days": 0, "nontrivial": [], "evals": 0}
    specs = case["specs"]
    rng = random.Random(case["seed"])
    exp = case["exp"]
    res["faults"]["experiment:" + exp] = 1

    def V(sig, msg):
        if not any(v["sig"] == sig for v in res["violations"]):
            res["violations"].append({"sig": sig, "msg": msg, "where": {}})

    solo = [d[0] for d in _solo([[s] for s in specs])]
    if all(not len(d) == 24 for d in solo):
        res["status"] = "rejected"
        res["reason"] = solo[0]
        return res
    if exp == "hashseed":
        outs = _solo([[specs[0]]] * len(case["hashseeds"]), hashseeds=case["hashseeds"])
        for hs, o in zip(case["hashseeds"], outs):
            res["evals"] += 1
            res["faults"]["fresh_interpreter"] = res["faults"].get("fresh_interpreter", 0) + 1
            res["nontrivial"].append(config_sig(specs[0]) + f"#hs{hs}")
            if o[0] != solo[0]:
                V("C10:differs-across-interpreters", f"PYTHONHASHSEED={hs}: digest {o[0]} vs {solo[0]} under PYTHONHASHSEED=0")
    elif exp == "workers":
        w = int(case["workers"])
        order = list(range(len(specs)))
        rng.shuffle(order)
        shares = [order[i::w] for i in range(w)]
        outs = _solo([[specs[j] for j in sh] for sh in shares], hashseeds=[rng.randrange(1, 2 ** 31) for _ in shares])
        res["faults"]["worker_processes"] = w
        for sh, o in zip(shares, outs):
            for pos, (j, dg) in enumerate(zip(sh, o)):
                res["evals"] += 1
                if pos > 0:
                    res["nontrivial"].append(config_sig(specs[j]) + f"#w{w}p{pos}")
                if dg != solo[j]:
                    V("C10:differs-by-worker-assignment", f"bundle {j} as item {pos} of a worker's share {sh}: digest {dg} vs {solo[j]} alone ({config_sig(specs[j])})")
    else:
        g0 = _global_digest()
        nodes = [None] * len(specs)
        state = ["new"] * len(specs)
        log = []
        alive = list(range(len(specs)))
        seq = 0
        while alive and seq < 20000:
            i = rng.choice(alive)
            seq += 1
            try:
                if state[i] == "new":
                    nodes[i] = Node(specs[i], name=f"n{i}")
                    state[i] = "built"
                    log.append((i, "build"))
                elif state[i] == "built":
                    nodes[i].initialize()
                    state[i] = "running"
                    log.append((i, "init"))
                else:
                    k = rng.choice([1, 1, 3, 10, 40, 200])
                    nodes[i].step(k)
                    log.append((i, "step", k))
                    if nodes[i].finished:
                        state[i] = "done"
                        alive.remove(i)
            except CaseTimeout:
                raise
            except Exception as e:  # noqa: BLE001
                kind, sig = classify_exception(e)
                if kind == "harness":
                    raise
                state[i] = f"{kind}:{sig}"
                alive.remove(i)
            if rng.random() < 0.15:
                nk = _noise(rng, specs)
                res["faults"]["noise:" + nk] = res["faults"].get("noise:" + nk, 0) + 1
        res["faults"]["interleaved_ops"] = len(log)
        switches = sum(1 for a, b in zip(log, log[1:]) if a[0] != b[0])
        res["faults"]["node_switches"] = switches
        for i, s in enumerate(specs):
            res["evals"] += 1
            if state[i] == "done":
                dg = digest_tables(nodes[i].tables())
                res["days"] += nodes[i].steps_done
            else:
                dg = state[i]
            res["nontrivial"].append(config_sig(s) + f"#il{i}/{len(specs)}:{switches}")
            if dg != solo[i]:
                V("C10:differs-when-interleaved", f"node {i} of {len(specs)} interleaved ({switches} switches): digest {dg} vs {solo[i]} alone in a fresh interpreter ({config_sig(s)})")
        if _global_digest() != g0:
            res["probes"]["process_global_state_changed"] = 1
    return res


def simplifiers(case, violation=None):
    import copy
    sp = case["specs"]
    if len(sp) > 2 or (len(sp) > 1 and case["exp"] != "interleave"):
        for i in range(len(sp)):
            c = copy.deepcopy(case)
            del c["specs"][i]
            if c["specs"]:
                yield c
    if case["exp"] == "workers" and case.get("workers", 1) > 1:
        c = copy.deepcopy(case)
        c["workers"] = 1
        yield c
