"""C08 - seasons independent when the off-season is skipped (kind A, exploration).

The season reset is the model's internal restart; the oracle is a fresh node: for a
multi-season bundle M, every season k >= 1 is compared bitwise with season 0 of a fresh
single-season-start run R_k built from fresh objects of the same spec with the start date
moved to season k's planting date.
"""
import numpy as np
import pandas as pd

from .common import config_sig
from ..gen import gen_spec, planting_dates
from ..node import Node, FLUX_COLS, GROWTH_COLS, FI, GI
from ..domain import classify_exception, CROP_INFO
from ..engine import CaseTimeout
from ..spec import fmt_date, parse_date, clone

ID = "C08"
LEVEL = "exploration"
N = {"quick": 128, "thorough": 4000}
BUDGET_S = {"quick": 150, "thorough": 1500}
RULE = ("multi-season bundles (2-5 seasons, off-season skipped) with events placed so that earlier seasons end differently from the "
        "configured initial condition (storms, droughts, heat, cold, pre-irrigation, ponding); node M runs to the end, then for each "
        "season k >= 1 a fresh node R_k (fresh objects, start date = season k's planting date) is run and M's season-k daily rows and "
        "summary row are compared bitwise with R_k's season-0 rows (step indices shifted). evaluations = (bundle, k) comparisons; "
        "non-trivial = season k-1 left the soil water different from the configured initial content; distinct = distinct "
        "(configuration signature, k)")
ASSUMPTIONS = ["inputs that legitimately differ between M and R_k are excluded: CO2(constant_conc=True) without an explicit concentration "
               "(means 'the first simulated year'), 'Variable' water tables and step-wise tables that could stand inside the profile or meet an 'FC' initial content (replaced by their first observation; step-wise tables below the profile are kept), SwitchGDD=1 (calendar conversion documented as a mean over the whole window)"]
PROFILE = {"n_seasons": [2, 2, 3, 3, 4, 5], "off_season_p": 0.0, "end_kinds": ["after", "after", "eoy", "mid"],
           "irr_methods": [0, 1, 2, 3, 4, 4, 5], "events_per_year": 2.5, "bunds": 0.3, "field_p": 0.5, "gw": 0.2,
           "allow_co2_first_year": False, "start_rel": ["at", "before", "before"], "switchgdd_p": 0.0, "calendar_crop_p": 0.6}


def gen_case(rng, tier, idx):
    prof = dict(PROFILE)
    regime = ["mixed", "stress", "wet", "mixed"][idx % 4]
    if regime == "stress":
        # every season is likely to end in early senescence / crop death: the previous season must leave
        # stress counters and timers behind for a missing reset to show
        prof.update({"archetypes": ["semiarid", "warm"], "event_kinds": ["drought", "dry_then_wet", "heat_wave", "cold_snap"], "events_per_year": 4.0,
                     "irr_methods": [0, 0, 1, 2], "gw": 0.0, "sat_start_p": 0.0, "bunds": 0.0, "station_p": 0.0})
    elif regime == "wet":
        # seasons start and end waterlogged: saturated initial content, shallow table, storms, bunds
        prof.update({"sat_start_p": 0.8, "gw": 0.6, "gw_depths": [0.3, 0.45, 0.6, 0.75, 1.0], "event_kinds": ["storm", "wet_spell", "wet_spell"],
                     "events_per_year": 4.0, "bunds": 0.5, "field_p": 0.7, "archetypes": ["tropical", "temperate"], "station_p": 0.0,
                     "soils": ["Clay", "ClayLoam", "SiltClay", "Paddy", "SiltClayLoam", "Loam"], "iwc_kinds": ["Prop"]})
    spec = gen_spec(rng, prof)
    g = spec.get("gw")
    iwc = spec["iwc"]
    if (g and g["method"] == "Constant" and len(g["dates"]) > 1 and rng.random() < 0.8
            and not (iwc["wc_type"] == "Prop" and iwc["value"][-1] == "FC")):
        # a step-wise table that stays below the (possibly deepened) profile but within capillary reach of it: the configured
        # initial water content then does not depend on the table depth of the first day (it does only for 'FC' contents and
        # for a table inside the profile), so season k must still equal a fresh run - whatever the table did before season k
        kw = spec["soil"].get("kwargs") or {}
        depth = round(sum(kw["dz"]), 2) if "dz" in kw else (2.0 if spec["soil"]["type"] == "ac_TunisLocal" else 1.2)
        zmax = float((spec["crop"].get("overrides") or {}).get("Zmax", CROP_INFO[spec["crop"]["name"]]["Zmax"]))
        bottom = max(depth, zmax + 0.1)
        g["values"] = [round(bottom + rng.choice([0.1, 0.2, 0.4, 0.6, 0.9, 1.3]) + rng.uniform(0, 0.05), 2) for _ in g["values"]]
    elif spec.get("gw") and len(spec["gw"]["dates"]) > 1:
        # a time-varying table makes "the configured initial condition" depend on the start date (the initial
        # water content follows the table depth on the first day): keep the table constant for this comparison
        spec["gw"] = {"water_table": "Y", "method": "Constant", "dates": spec["gw"]["dates"][:1], "values": spec["gw"]["values"][:1]}
    return {"spec": spec}


STATE_EXEMPT = {"time_step_counter"}   # the only field that differs by construction (step index of the day)


def _state_copy(cond):
    out = {}
    for k, v in cond.__dict__.items():
        out[k] = np.array(v, dtype=float, copy=True) if isinstance(v, np.ndarray) else v
    return out


def _state_diff(a, b):
    bad = []
    for k in a:
        if k in STATE_EXEMPT:
            continue
        x, y = a[k], b.get(k)
        if isinstance(x, np.ndarray) or isinstance(y, np.ndarray):
            try:
                same = np.array_equal(np.asarray(x, dtype=float), np.asarray(y, dtype=float), equal_nan=True)
            except Exception:
                same = False
        elif isinstance(x, float) and isinstance(y, float) and x != x and y != y:
            same = True
        else:
            same = (x == y) and (type(x) is type(y) or isinstance(x, (int, float, np.number)))
        if not same:
            bad.append((k, x, y))
    return bad


def _season_rows(t, k):
    fl = t["flux"]
    idx = np.flatnonzero((fl[:, FI["season_counter"]] == k) & (fl[:, FI["dap"]] > 0))
    return idx


def run_case(case):
    spec = case["spec"]
    res = {"status": "ok", "violations": [], "faults": {}, "probes": {}, "days": 0, "nontrivial": [], "evals": 0}
    try:
        M = Node(spec, probes=("days",))
        th_end = {}
        box = {}

        st_m = {}

        def on_day(n, rec):
            th_end[rec.season] = rec.th1
            if rec.season >= 1 and rec.growth[2] in (1.0, 3.0):
                st_m[(rec.season, int(rec.growth[2]))] = _state_copy(n._cond)
            n.records.clear()
        M.day_hooks.append(on_day)
        M.run_to_end()
        tm = M.tables()
        res["days"] += M.steps_done
        for ev in (spec.get("weather") or {}).get("events") or []:
            res["faults"]["event:" + ev["kind"]] = res["faults"].get("event:" + ev["kind"], 0) + 1
        th_init = None
        pl = [pd.Timestamp(x) for x in M.clock.planting_dates]
        start = pd.Timestamp(parse_date(spec["start"]))
        csig = config_sig(spec)
        for k in range(1, len(pl)):
            rows_m = _season_rows(tm, k)
            if len(rows_m) == 0:
                continue
            spec_k = clone(spec)
            spec_k["start"] = fmt_date(pl[k].date())
            R = Node(spec_k, probes=("days",))
            st_r = {}

            def on_day_r(n, rec, st_r=st_r):
                if rec.season == 0 and rec.growth[2] in (1.0, 3.0):
                    st_r[int(rec.growth[2])] = _state_copy(n._cond)
                n.records.clear()
            R.day_hooks.append(on_day_r)
            R.run_to_end()
            tr = R.tables()
            res["days"] += R.steps_done
            res["evals"] += 1
            res["faults"]["season_reset"] = res["faults"].get("season_reset", 0) + 1
            rows_r = _season_rows(tr, 0)
            label = f"season {k} (planted {pl[k].date()})"
            v = None
            if len(rows_m) != len(rows_r):
                tag = ""
                if CROP_INFO[spec["crop"]["name"]]["CalendarType"] == 2 and not spec["crop"].get("harvest_date"):
                    # thermal-time crop whose latest harvest date was derived by the model itself
                    tag = ":thermal-crop-derived-harvest-date"
                v = ("C08:season-length" + tag, f"{label}: {len(rows_m)} in-season days in the multi-season run, {len(rows_r)} in the fresh single-season run")
            else:
                for name, cols, skip in (("flux", FLUX_COLS, {"time_step_counter", "season_counter"}),
                                         ("growth", GROWTH_COLS, {"time_step_counter", "season_counter"}),
                                         ("storage", None, {0})):
                    a, b = tm[name][rows_m], tr[name][rows_r]
                    eq = (a == b) | (np.isnan(a) & np.isnan(b))
                    for c in range(a.shape[1]):
                        cname = cols[c] if cols else c
                        if cname in skip:
                            eq[:, c] = True
                    if not eq.all():
                        r, c = np.argwhere(~eq)[0]
                        cname = cols[c] if cols else f"th{c - 2}"
                        v = (f"C08:daily-rows-differ:{name}:{cname}:method{spec['irr']['method']}",
                             f"{label}: day {int(r) + 1} of the season, {name}.{cname} = {a[r, c]!r} in the multi-season run vs {b[r, c]!r} in a fresh run started on that planting date")
                        break
                if v is None:
                    fm = [x for x in (tm["final"] or []) if x[1] == k]
                    fr = [x for x in (tr["final"] or []) if x[1] == 0]
                    if len(fm) != len(fr):
                        v = ("C08:summary-row-presence", f"{label}: {len(fm)} summary rows vs {len(fr)} in the fresh run")
                    elif fm:
                        a, b = fm[0], fr[0]
                        shift = int((pl[k] - start).days)
                        same = (a[2] == b[2] and a[3] == b[3] and a[4] - shift == b[4] and all((x == y) or (x != x and y != y) for x, y in zip(a[5:], b[5:])))
                        if not same:
                            v = ("C08:summary-row-differs", f"{label}: summary {a} vs fresh run {b} (step shift {shift})")
            if v is None:
                # the model state carried out of day 1 / day 3 of the season must be that of the fresh run: by then every
                # field that is re-initialised on first use has been written, so a remaining difference is state of the
                # earlier season surviving the reset (stress counters, timers) even where no output has diverged yet
                for d in (1, 3):
                    if (k, d) in st_m and d in st_r:
                        bad = _state_diff(st_m[(k, d)], st_r[d])
                        if bad:
                            f, x, y = bad[0]
                            v = (f"C08:state-survives-reset:{f}", f"{label}: after day {d} of the season the state field '{f}' is {x!r} in the multi-season run and {y!r} in the fresh run (other differing fields: {[b[0] for b in bad[1:6]]})")
                            break
            # non-trivial: previous season ended with a different water content than the initial one
            if th_init is None:
                th_init = np.array(R.model._init_cond.thini, dtype=float)
            prev_end = th_end.get(k - 1)
            if prev_end is not None and len(prev_end) == len(tr["storage"][0, 3:]) and not np.array_equal(prev_end, tr["storage"][0, 3:]):
                res["nontrivial"].append(f"{csig}#{k}")
            if v is not None and not any(x["sig"] == v[0] for x in res["violations"]):
                res["violations"].append({"sig": v[0], "msg": v[1], "where": {}})
    except CaseTimeout:
        raise
    except Exception as e:  # noqa: BLE001
        kind, sig = classify_exception(e)
        if kind == "harness":
            raise
        res["status"] = "rejected" if kind == "permitted" else "aborted"
        res["reason"] = sig
    return res
