"""C07 - the simulation calendar is exact (kind A, exploration)."""
from .common import std_case, std_run, STATE_MEASURE  # noqa: F401
from ..monitors import mon_c07, final_c07

ID = "C07"
LEVEL = "exploration"
N = {"quick": 192, "thorough": 8000}
BUDGET_S = {"quick": 150, "thorough": 1500}
RULE = ("seeded windows (start before/at/after planting, end mid-season / on harvest / year end / 29 February, seasons spanning New "
        "Year, 1-5 seasons, off-season on/off) x all crops x seeded partitions of run_model calls; the simulated days, step indices, "
        "season counter, days after planting, season ends and termination are decided against an independent date-arithmetic model "
        "driven by the season-end events observed through the termination-check seam; liveness = finished within len(time_span) "
        "calls. Non-trivial run: at least one season boundary (harvest) or the end date was crossed while stepping; distinct = "
        "distinct (window shape, crop calendar type, off-season flag, partition kind, number of seasons)")
PROFILE = {"n_seasons": [1, 2, 2, 3, 4, 5], "newyear_p": 0.3, "leap_end_p": 0.05, "off_season_p": 0.5,
           "start_rel": ["at", "before", "before", "after", "after"], "end_kinds": ["after", "mid", "eoy", "harvestish", "harvestish"],
           "field_p": 0.1, "gw": 0.05, "custom_soil_p": 0.05, "irr_methods": [0, 0, 1, 4], "events_per_year": 1.0,
           "event_kinds": ["drought", "cold_snap", "heat_wave"], "sensible_planting_p": 0.6}


def gen_case(rng, tier, idx):
    if idx % 8 == 3:
        # year-long seasons: a crop that stands (nearly) a full year, harvested and replanted on the same date or within days of
        # it, so that a season's last day and the next season's first day touch - with and without off-season simulation
        import datetime as dt
        from ..domain import CROP_INFO
        case = std_case(rng, dict(PROFILE, crops=["SugarCane", "SugarCane", "Cassava", "AlfalfaGDD"], n_seasons=[2, 3, 4], off_season_p=0.7,
                                  start_rel=["at", "at", "before"], end_kinds=["after", "eoy", "harvestish"], sensible_planting_p=0.9,
                                  irr_methods=[1, 1, 4, 0], events_per_year=0.3, leap_end_p=0.0))
        crop = case["spec"]["crop"]
        if crop["name"] != "AlfalfaGDD":
            m, d = [int(x) for x in crop["planting_date"].split("/")]
            h = dt.date(2001, m, d) + dt.timedelta(days=rng.choice([0, 0, 0, -1, -2, -7]))
            crop["harvest_date"] = f"{h.month:02d}/{h.day:02d}"
            if case["spec"]["irr"]["method"] == 1:
                case["spec"]["irr"]["kwargs"]["SMT"] = [70, 70, 70, 70]
        return case
    case = std_case(rng, PROFILE)
    if rng.random() < 0.2:
        # explicit latest harvest date
        import datetime as dt
        from ..domain import CROP_INFO
        m, d = [int(x) for x in case["spec"]["crop"]["planting_date"].split("/")]
        mat = CROP_INFO[case["spec"]["crop"]["name"]]["MaturityCD"]
        h = dt.date(2001, m, d) + dt.timedelta(days=rng.choice([mat - 20, mat, mat + 10, mat + 45]))
        if not (h.month == 2 and h.day == 29):
            case["spec"]["crop"]["harvest_date"] = f"{h.month:02d}/{h.day:02d}"
    return case


def _final(ctx, node, spec):
    return final_c07(ctx, node, spec)


def run_case(case):
    spec = case["spec"]
    res = std_run(case, [mon_c07], probes=("days",), nontrivial_fn=lambda r: r["days"] > 0, final_fn=_final)
    if res.get("nontrivial"):
        from ..gen import planting_dates
        from ..domain import CROP_INFO
        res["nontrivial"] = ["|".join(str(x) for x in (CROP_INFO[spec["crop"]["name"]]["CalendarType"], int(bool(spec.get("off_season"))),
                                                          case.get("partition"), len(planting_dates(spec)), spec["start"][5:], spec["end"][5:]))]
    return res


CASE_TIMEOUT_S = 240


def on_timeout(case, res):
    # bounded liveness: "the run always terminates" - a run that is still going after the per-case wall budget
    # (hundreds of times the normal duration of a run) is reported with the repository frame it was stuck in
    res["violations"].append({"sig": "C07:does-not-terminate@" + str(res.get("timeout_at")), "msg": res["reason"], "where": {}})
    return res
