"""C12 - configured parameters and weather stay read-only while stepping (kind B, exploration).

Snapshots (deep value copies) of every configured object are taken before each day, after the
daily solution and after the clock update - inside multi-day calls too, through the seams on
solution_single_time_step and update_time - and compared.  Allowed changes are exactly:
season k's crop parameters and CO2.current_concentration inside the update_time call that
starts season k; IrrMngt.depth by a controller write the world made itself.
"""
import numpy as np
import pandas as pd

from .common import std_case, config_sig, controller_fn, basin_regime, BASIN_PROFILE, STATE_MEASURE  # noqa: F401
from ..traj import run_trajectory, finish
from ..domain import classify_exception, innermost_aquacrop_frame

ID = "C12"
LEVEL = "exploration"
N = {"quick": 160, "thorough": 6000}
BUDGET_S = {"quick": 150, "thorough": 1500}
RULE = ("seeded swarm biased to curve-number / germination / top-soil depths off compartment boundaries, profiles deepened for "
        "deep-rooted crops, thermal-time crops, controller writes, all partitions; value snapshots of the 17 profile arrays, the soil "
        "scalars, both irrigation and both field-management structs, the groundwater series, the whole weather matrix and every "
        "season's crop parameters are compared around every day and every clock update. An attempted write that raises on a "
        "read-only array is classified as a violation too. Non-trivial run: at least one rainy day with antecedent-moisture "
        "adjustment active, or a season start (the only allowed change) was crossed; distinct = distinct configuration signatures")
PROFILE = {"soil_switch_p": 0.8, "dz_p": 0.5, "calendar_crop_p": 0.4, "n_seasons": [1, 2, 2, 3], "gw": 0.35, "gw_depths": [0.1, 0.15, 0.2, 0.25, 0.3, 0.45, 0.75, 1.0, 1.5, 2.5, 6.0], "field_p": 0.5,
           "irr_methods": [0, 1, 2, 3, 4, 5, 5], "events_per_year": 3.0, "event_kinds": ["storm", "wet_spell", "drought", "dry_then_wet", "dry_then_wet", "heat_wave", "cold_snap", "et0_spike"], "co2_p": 0.4, "off_season_p": 0.5,
           "crops": None}

LONG_CANOPY_WINDOW_CROPS = ["AlfalfaGDD", "AlfalfaGDD", "Sunflower", "Sunflower", "SunflowerGDD", "Maize", "MaizeGDD", "Default", "Quinoa", "SugarCane"]

PROFILE_ARRAYS = ["Comp", "dz", "Layer", "dzsum", "th_fc", "th_s", "th_wp", "Ksat", "Penetrability", "th_dry", "tau", "zBot",
                  "z_top", "zMid", "th_fc_Adj", "aCR", "bCR"]


def _val(v):
    if isinstance(v, np.ndarray):
        return v.copy()
    if isinstance(v, (pd.DataFrame, pd.Series, pd.Index)):
        return v.copy(deep=True)
    if isinstance(v, (list, tuple)):
        return type(v)(_val(x) for x in v)
    return v


def _eq(a, b):
    if isinstance(a, np.ndarray) or isinstance(b, np.ndarray):
        try:
            a2, b2 = np.asarray(a), np.asarray(b)
            if a2.shape != b2.shape:
                return False
            if a2.dtype == object or b2.dtype == object:
                return bool((a2 == b2).all())
            return bool(((a2 == b2) | (np.isnan(a2.astype(float)) & np.isnan(b2.astype(float)))).all())
        except Exception:
            return False
    if isinstance(a, (pd.DataFrame, pd.Series)):
        try:
            return a.equals(b)
        except Exception:
            return False
    if isinstance(a, pd.Index):
        return a.equals(b)
    if isinstance(a, float) and isinstance(b, float):
        return a == b or (a != a and b != b)
    try:
        r = a == b
        if isinstance(r, (np.ndarray, pd.Series)):
            return bool(np.all(r))
        return bool(r)
    except Exception:
        return a is b


def snapshot(model):
    ps = model._param_struct
    snap = {}
    prof = ps.Soil.Profile
    for name in PROFILE_ARRAYS:
        snap["Profile." + name] = _val(getattr(prof, name))
    for k, v in ps.Soil.__dict__.items():
        if k == "Profile":
            continue
        snap["Soil." + k] = _val(v)
    for sname in ("IrrMngt", "FallowIrrMngt", "FieldMngt", "FallowFieldMngt"):
        for k, v in getattr(ps, sname).__dict__.items():
            snap[f"{sname}.{k}"] = _val(v)
    snap["z_gw"] = _val(np.asarray(ps.z_gw))
    snap["zGW_dates"] = _val(np.asarray(ps.zGW_dates))
    snap["water_table"] = ps.water_table
    snap["WTMethod"] = ps.WTMethod
    snap["weather"] = model._weather.copy()
    for i, crop in enumerate(ps.Seasonal_Crop_List):
        for k, v in crop.__dict__.items():
            snap[f"Crop[{i}].{k}"] = _val(v)
    for k, v in ps.CO2.__dict__.items():
        snap["CO2." + k] = _val(v)
    return snap


def changed(a, b):
    out = []
    for k in a:
        if k not in b:
            out.append(k + " (removed)")
        elif not _eq(a[k], b[k]):
            out.append(k)
    for k in b:
        if k not in a:
            out.append(k + " (added)")
    return out


def gen_case(rng, tier, idx):
    if idx % 4 == 1:
        # stress-and-recovery regime: dry start, no rain for the first weeks after sowing, then generous water (a dated
        # schedule or a wet spell) - canopy shrinkage, early senescence, recovery and the parameter adjustments they trigger
        import datetime as dt
        from ..gen import planting_dates
        from ..spec import fmt_date, parse_date
        from ..weather import make_event
        prof = dict(PROFILE, gw=0.0, sat_start_p=0.0, irr_methods=[0], custom_soil_p=0.0, events_per_year=0.5, n_seasons=[1, 2], sensible_planting_p=0.95,
                    iwc_kinds=["Pct"])
        if rng.random() < 0.85:
            # crops whose canopy-development window is at least twice the time they need to close the canopy: room to recover
            prof["crops"] = LONG_CANOPY_WINDOW_CROPS
        case = std_case(rng, prof)
        spec = case["spec"]
        spec["iwc"]["value"] = [rng.choice([20, 30, 40, 50]) for _ in spec["iwc"]["value"]]
        w = spec["weather"]
        off = (parse_date(spec["start"]) - parse_date(w["start"])).days
        sched = []
        for p in planting_dates(spec):
            d0 = (p - parse_date(spec["start"])).days
            dry = rng.choice([12, 18, 25, 32, 40, 60])
            w["events"].append({"kind": "drought", "day": off + d0 - 3, "len": dry + 3 + 120, "mag": 0.0})
            t = dry
            while t < dry + 120:
                sched.append([fmt_date(p + dt.timedelta(days=t)), rng.choice([25, 35, 45])])
                t += rng.choice([2, 3, 4])
        spec["irr"] = {"method": 3, "kwargs": {"MaxIrr": 60}, "schedule": sched}
        case["controller"] = None
        if rng.random() < 0.9:
            # Notebook-2 pattern driven by state: a grower who starts a constant daily application (IrrMngt.depth) a few days
            # after the canopy has visibly shrunk below its initial size, i.e. re-watering lands wherever the stress really bit
            spec["irr"] = {"method": 5, "kwargs": {"depth": 0, "MaxIrr": 60}, "schedule": None}
            case["reactive_controller"] = {"when": "canopy_below_initial_size", "delay": rng.choice([0, 0, 1, 3, 6]),
                                           "depth": rng.choice([12, 20, 30]), "days": rng.choice([40, 200, 200])}
        return case
    if idx % 4 == 3:
        # flooded basin whose management changes at harvest, off-season simulated: the day the other management takes over
        case = basin_regime(rng, std_case(rng, dict(PROFILE, **BASIN_PROFILE)))
        # no state-triggered weather writes here: this check compares the weather matrix around every step
        case["spec"].pop("reactive", None)
        return case
    return std_case(rng, PROFILE)


def run_case(case):
    spec = dict(case["spec"])
    spec.pop("reactive", None)
    fired = {}
    ctrl = controller_fn(case.get("controller"), fired)
    viol = []
    st = {"S": None, "phase": None, "ctrl_wrote": False, "resets": 0, "rainy_adj": 0}

    def V(sig, msg, t):
        if not any(v["sig"] == sig for v in viol) and len(viol) < 6:
            viol.append({"sig": sig, "msg": msg, "where": {"t": t}})

    def pre_day(node, t):
        S = snapshot(node.model)
        if st["S"] is not None:
            ch = changed(st["S"], S)
            allowed = {"IrrMngt.depth"} if st["ctrl_wrote"] else set()
            bad = [c for c in ch if c not in allowed]
            if bad:
                V("C12:changed-between-steps:" + bad[0].split("[")[0], f"before step t={t}: {bad[:6]} changed between two steps without a controller write", t)
        st["ctrl_wrote"] = False
        st["S"] = S

    def on_day(node, rec):
        S = snapshot(node.model)
        ch = changed(st["S"], S)
        if ch:
            V("C12:changed-during-step:" + _generic(ch[0]), f"day t={rec.t}: {ch[:6]} changed inside the daily solution", rec.t)
        st["S"] = S
        if rec.wx[2] > 0:
            st["rainy_adj"] += 1
        # reach probes: canopy shrunk below its initial size, and full recovery afterwards
        try:
            ic = node.model._init_cond
            k = node.model._clock_struct.season_counter
            crop = node.model._param_struct.Seasonal_Crop_List[k]
            if st.get("shrunk_season") != k:
                st["shrunk"] = False
            if ic.growing_season and float(ic.cc0_adj) < float(crop.CC0) - 1e-12:
                st["shrunk"] = True
                st["shrunk_any"] = True
                st["shrunk_season"] = k
            if st.get("shrunk") and ic.growing_season and float(ic.canopy_cover) >= 0.98 * float(crop.CCx):
                st["recovered"] = True
        except Exception:
            pass

    def on_update(node, info, cond):
        S = snapshot(node.model)
        ch = changed(st["S"], S)
        allowed_prefix = ()
        if info["reset"]:
            st["resets"] += 1
            k = info["season_after"]
            allowed_prefix = (f"Crop[{k}].", "CO2.current_concentration")
        bad = [c for c in ch if not c.startswith(allowed_prefix)] if allowed_prefix else ch
        if st["ctrl_wrote"]:
            # the world's own controller wrote IrrMngt.depth after the daily solution (Notebook 2 pattern)
            bad = [c for c in bad if c != "IrrMngt.depth"]
            st["ctrl_wrote"] = False
        if bad:
            V("C12:changed-in-clock-update:" + _generic(bad[0]), f"after step t={info['t_before']}: {bad[:6]} changed inside the clock update (season start: {info['reset']})", info["t_before"])
        st["S"] = S

    def _generic(name):
        import re
        return re.sub(r"\[\d+\]", "[k]", name)

    rc = case.get("reactive_controller")

    def controller(node, rec, ctx):
        before = node.model._param_struct.IrrMngt.depth
        if ctrl is not None:
            ctrl(node, rec, ctx)
        if rc is not None:
            m = node.model
            k = int(m._clock_struct.season_counter)
            if st.get("rc_season") != k:
                st["rc_season"], st["rc_seen"], st["rc_on"] = k, None, None
                if m._param_struct.IrrMngt.depth != 0:
                    m._param_struct.IrrMngt.depth = 0.0
            if k >= 0 and st["rc_seen"] is None and rec.growing and float(m._init_cond.cc0_adj) < float(m._param_struct.Seasonal_Crop_List[k].CC0) - 1e-12:
                st["rc_seen"] = rec.t
            if st["rc_seen"] is not None and st["rc_on"] is None and rec.t >= st["rc_seen"] + rc["delay"]:
                m._param_struct.IrrMngt.depth = float(rc["depth"])
                st["rc_on"] = rec.t
                fired["reactive_controller_on"] = fired.get("reactive_controller_on", 0) + 1
            elif st["rc_on"] is not None and rec.t >= st["rc_on"] + rc["days"] and m._param_struct.IrrMngt.depth != 0:
                m._param_struct.IrrMngt.depth = 0.0
        if node.model._param_struct.IrrMngt.depth != before:
            st["ctrl_wrote"] = True

    def setup(node):
        node.pre_day_hooks.append(pre_day)
        node.update_hooks.append(on_update)

    res = run_trajectory(spec, [], probes=("days",), partition=case.get("partition"), controller=controller,
                         first_call_init=False, part_seed=case.get("part_seed", 0), collect_states=False,
                         extra_day_hooks=[on_day], setup=setup)
    # the snapshot after the solution must be taken before the controller acts: extra_day_hooks run after on_day of traj
    res["violations"].extend(viol)
    if res["status"] == "aborted" and res.get("exc") is not None:
        e = res["exc"]
        if isinstance(e, ValueError) and "read-only" in str(e):
            fr = innermost_aquacrop_frame(e)
            import os
            where = f"{os.path.basename(fr.filename)}:{fr.name}:{(fr.line or '').strip()[:60]}" if fr else "?"
            res["violations"].append({"sig": "C12:attempted-write@" + where, "msg": f"a process tried to write into a read-only configured array: {e} at {where}", "where": {"t": res['days']}})
            res["status"] = "ok"
    res["faults"].update({k: v for k, v in fired.items()})
    res["probes"]["season_start_crossed"] = st["resets"]
    res["probes"]["canopy_shrunk_below_initial_size"] = int(bool(st.get("shrunk_any")))
    res["probes"]["canopy_recovered_to_ccx_after_shrinking"] = int(bool(st.get("recovered")))
    if res["status"] == "ok" and (st["resets"] > 0 or st["rainy_adj"] > 0):
        res["nontrivial"] = [config_sig(spec)]
    return finish(res)
