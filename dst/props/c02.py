"""C02 - rain and irrigation fully partitioned at the surface (kind B, exploration)."""
from .common import shallow_pond_regime, SHALLOW_POND_PROFILE, std_case, std_run, basin_regime, BASIN_PROFILE, STATE_MEASURE  # noqa: F401
from ..monitors import mon_c02

ID = "C02"
LEVEL = "exploration"
N = {"quick": 128, "thorough": 6000}
BUDGET_S = {"quick": 150, "thorough": 1500}
RULE = ("seeded swarm biased to clay/paddy soils, storms up to 300 mm, bunds with removal days (different in-season/fallow "
        "management), inhibited runoff, curve-number adjustment (effective CN <= 98), antecedent-moisture adjustment on/off, "
        "application efficiency 50-100; per day the partition identity, runoff bounds, sign of infiltration and the "
        "nothing-from-nothing rule are checked against the weather the world delivered. Non-trivial run: some day had runoff > 0 "
        "or ponding > 0; distinct = distinct configuration signatures")
PROFILE = {"reactive_p": 0.3, "bunds": 0.5, "field_p": 0.7, "fallow_field_p": 0.5, "sr_inhb_p": 0.2, "cnadj_p": 0.4,
           "soils": ["Clay", "Paddy", "SiltClay", "ClayLoam", "SandyClay", "Loam", "Sand", "SandyLoam"],
           "event_kinds": ["storm", "storm", "wet_spell", "drought", "et0_spike"], "events_per_year": 3.0,
           "irr_methods": [0, 1, 2, 3, 5, 5], "soil_switch_p": 0.6, "off_season_p": 0.6}


def gen_case(rng, tier, idx):
    if idx % 8 == 3:
        # a series of storms each leaving a pond of a few millimetres behind empty bunds under a stressed canopy
        return shallow_pond_regime(rng, std_case(rng, dict(PROFILE, **SHALLOW_POND_PROFILE)))
    if idx % 4 == 1:
        # flooded basin whose management changes at harvest (bunds lowered or removed) with the off-season simulated
        return basin_regime(rng, std_case(rng, dict(PROFILE, **BASIN_PROFILE)))
    return std_case(rng, PROFILE)


def _nontrivial(res):
    p = res["probes"]
    return p.get("runoff_day", 0) > 0 or p.get("ponded_day", 0) > 0


def run_case(case):
    return std_run(case, [mon_c02], probes=("days",), nontrivial_fn=_nontrivial)
