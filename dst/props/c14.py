"""C14 - no look-ahead: past outputs do not depend on future weather (kind A, exploration).

F5 undelivered future: the candidate node is *initialised on garbage* weather (dates intact)
and receives each day's true record just before that day's step; rows beyond stay garbage
(value-permuted plausible numbers, or NaN poison) and are re-drawn every r steps.  One such
run covers every cut day t for that perturbation.  F6: garbage records outside the window;
end-date extension.
"""
import datetime as dt

import numpy as np
import pandas as pd

from .common import config_sig
from ..gen import gen_spec
from ..node import Node, diff_tables, FI
from ..spec import Objects, weather_frame, clone, parse_date, fmt_date
from ..domain import classify_exception, CROP_INFO, CAL_CROPS
from ..engine import CaseTimeout

ID = "C14"
LEVEL = "exploration"
N = {"quick": 160, "thorough": 6000}
BUDGET_S = {"quick": 150, "thorough": 1500}
RULE = ("modes per case: (jit) calendar-day crop initialised on garbage weather, true record of day t written into the model's weather "
        "matrix just before step t, future rows stay garbage and are re-drawn every r steps - all tables must equal the up-front "
        "reference bitwise, which covers every cut day t of that perturbation; (jit_nan) same with NaN poison in every undelivered "
        "row; (cut) explicit twins whose weather table, handed in before initialisation, differs from step t on, for cut days placed after / on injected calm days, storms and spikes - rows before t must be equal; (outside) garbage records before/after the window; (extend) end date extended by 1 day .. 2 years, rows and summary "
        "rows of seasons completed in the shorter run must be unchanged. evaluations = runs compared; non-trivial = the run "
        "simulated at least one in-season day under the perturbation; distinct = distinct (configuration signature, mode, parameters)")
ASSUMPTIONS = ["thermal-time crops legitimately read season-long temperatures at each season start (stated in the property), so the jit modes use calendar-day crops only",
               "SwitchGDD=1 is excluded from the extension mode: its calendar conversion is documented as a mean over the whole window"]
PROFILE = {"n_seasons": [1, 1, 2, 3], "events_per_year": 2.0, "off_season_p": 0.5, "field_p": 0.3, "gw": 0.15, "switchgdd_p": 0.0,
           "irr_methods": [0, 1, 2, 3, 4, 5], "weather_extra_after": 800}


def gen_case(rng, tier, idx):
    mode = rng.choice(["jit", "jit", "jit_nan", "outside", "extend", "extend", "cut", "cut"])
    prof = dict(PROFILE)
    if mode in ("jit", "jit_nan", "cut"):
        prof["crops"] = CAL_CROPS
    if mode == "cut":
        # special days in the true record (calm days down to and below the ET0 floor, storms, spikes) to cut right after
        prof.update({"events_per_year": 4.0, "event_kinds": ["et0_floor", "et0_floor", "storm", "et0_spike", "cold_snap", "heat_wave", "wet_spell"]})
    if mode == "extend":
        # whatever is derived from the window as a whole is a candidate for depending on the end date: CO2 interpolation
        # over the simulated years (sparse user tables, and the decadal part of the default record after 2010), the number
        # of scheduled seasons, the crop calendar
        prof.update({"co2_p": 0.6, "co2_series_extra_years": 5, "n_seasons": [1, 2, 2, 3], "weather_extra_after": 1500, "gw": 0.5})
    spec = gen_spec(rng, prof)
    case = {"spec": spec, "mode": mode, "seed": rng.getrandbits(32), "redraw_every": rng.choice([1, 3, 10, 50, 100000]),
            "partition_k": rng.choice([1, 1, 7, 30, 100000])}
    if mode == "extend" and spec.get("gw") and len(spec["gw"]["dates"]) >= 2 and rng.random() < 0.7:
        # a groundwater log kept for longer than this window: observations dated after the end date (they take effect only
        # once the window reaches them), often in the other depth regime than the in-window ones
        import datetime as _dt3
        g = spec["gw"]
        e0 = parse_date(spec["end"])
        if rng.random() < 0.5:
            # the table stays out of reach during this window and comes up only later (or the other way round)
            flip = rng.random() < 0.7
            g["values"] = [round((rng.choice([4.5, 6.0, 9.0, 14.0]) if flip else rng.choice([0.5, 0.9, 1.3])) + rng.uniform(0, 0.3), 2) for _ in g["values"]]
        deep = min(g["values"]) > 3.0
        for _ in range(rng.randint(1, 3)):
            d = e0 + _dt3.timedelta(days=rng.randint(1, 1400))
            ds = d.strftime("%Y%m%d")
            if ds not in g["dates"]:
                g["dates"].append(ds)
                g["values"].append(round(rng.choice([0.4, 0.8, 1.2, 1.6]) if (deep or rng.random() < 0.5) else rng.choice([3.0, 6.0, 12.0]), 2))
        if g.get("method") == "Constant":
            order = sorted(range(len(g["dates"])), key=lambda i: g["dates"][i])
            g["dates"] = [g["dates"][i] for i in order]
            g["values"] = [g["values"][i] for i in order]
    if mode == "extend":
        case["extend_days"] = sorted(set([rng.choice([1, 2, 30, 200]), rng.choice([365, 366, 730]), rng.choice([731, 1096, 1461])]))
        if rng.random() < 0.3:
            # a dated schedule written for a longer period than this window: entries before the start and after the end
            import datetime as _dt2
            s0, e0 = parse_date(spec["start"]), parse_date(spec["end"])
            n0 = (e0 - s0).days
            days = sorted(set([-rng.randint(1, 300) for _ in range(rng.randint(2, 6))] + [rng.randrange(n0) for _ in range(rng.randint(3, 12))] + [n0 + rng.randint(1, 200)]))
            spec["irr"] = {"method": 3, "kwargs": {"MaxIrr": rng.choice([25, 40, 80])},
                           "schedule": [[fmt_date(s0 + _dt2.timedelta(days=d)), rng.choice([10, 20, 30, 50])] for d in days]}
        if rng.random() < 0.4:
            # a sparse CO2 record above the reference concentration: values for the simulated years are interpolated in time
            import datetime as _dt
            y0, y1 = parse_date(spec["start"]).year, parse_date(spec["end"]).year
            step = rng.choice([5, 10])
            first = y0 - 1 - rng.randrange(step)
            base = rng.choice([400.0, 450.0, 600.0])
            spec["co2"] = {"series": [[y, round(base + 3.0 * (y - y0), 2)] for y in range(first, y1 + 6 + step, step)]}
    if mode == "outside":
        case["pad_front"], case["pad_back"] = rng.choice([0, 1, 30, 500]), rng.choice([0, 1, 30, 500])
    if mode == "cut":
        # cut days: the day after / the last day of / the first day of an injected event, and PRNG-drawn days
        n = (parse_date(spec["end"]) - parse_date(spec["start"])).days + 1
        off = (parse_date(spec["start"]) - parse_date(spec["weather"]["start"])).days
        cuts = set()
        for ev in spec["weather"].get("events") or []:
            for d in (ev["day"] + ev["len"], ev["day"] + ev["len"] - 1, ev["day"], ev["day"] + 1):
                if 1 <= d - off < n:
                    cuts.add(d - off)
        cuts = sorted(cuts)
        rng.shuffle(cuts)
        case["cuts"] = sorted(set(cuts[:4] + [rng.randrange(1, n) for _ in range(2)]))
    return case


def _garbage_like(df, g):
    """value-permuted in time and offset; dates intact; plausible ranges kept"""
    out = df.copy()
    n = len(df)
    perm = g.permutation(n)
    out["MinTemp"] = np.round(df["MinTemp"].values[perm] - g.uniform(1, 8), 1)
    out["MaxTemp"] = np.round(np.maximum(df["MaxTemp"].values[g.permutation(n)] + g.uniform(1, 8), out["MinTemp"].values + 0.5), 1)
    out["Precipitation"] = np.round(np.maximum(0, df["Precipitation"].values[g.permutation(n)] * g.uniform(0.5, 3.0) + g.choice([0, 0, 7.5], n)), 1)
    out["ReferenceET"] = np.round(np.maximum(0.1, df["ReferenceET"].values[g.permutation(n)] * g.uniform(0.5, 2.0)), 2)
    return out


def run_case(case):
    spec = case["spec"]
    mode = case["mode"]
    res = {"status": "ok", "violations": [], "faults": {}, "probes": {}, "days": 0, "nontrivial": [], "evals": 1}
    g = np.random.Generator(np.random.PCG64(case["seed"]))

    def V(sig, msg):
        if not any(v["sig"] == sig for v in res["violations"]):
            res["violations"].append({"sig": sig, "msg": msg, "where": {}})

    try:
        ref = Node(spec)
        ref.run_to_end()
        tr = ref.tables()
        res["days"] += ref.steps_done
    except CaseTimeout:
        raise
    except Exception as e:  # noqa: BLE001
        kind, sig = classify_exception(e)
        if kind == "harness":
            raise
        res["status"] = "rejected" if kind == "permitted" else "aborted"
        res["reason"] = sig
        return res
    in_season_days = int((tr["flux"][:, FI["dap"]] > 0).sum())
    true_df = weather_frame(spec["weather"])
    res["faults"]["mode:" + mode] = 1
    label = mode
    try:
        if mode in ("jit", "jit_nan"):
            start = pd.Timestamp(parse_date(spec["start"]))
            garb = _garbage_like(true_df, g)
            cand = Node(spec, objs=Objects(spec, weather_df=garb))
            cand.initialize()
            W = cand.model._weather
            n = W.shape[0]
            # true records aligned with the model's (clipped) matrix
            tdf = true_df[(true_df.Date >= start)].reset_index(drop=True)
            truth = tdf[["MinTemp", "MaxTemp", "Precipitation", "ReferenceET"]].values[:n]
            if mode == "jit_nan":
                W[:, 0:4] = np.nan
            r = int(case["redraw_every"])
            delivered = {"n": 0, "redraws": 0}

            def deliver(node, t):
                Wm = node.model._weather
                Wm[t, 0:4] = truth[t]
                delivered["n"] += 1
                if t % r == 0 and t + 1 < n:
                    if mode == "jit_nan":
                        Wm[t + 1:, 0:4] = np.nan
                    else:
                        m = n - (t + 1)
                        Wm[t + 1:, 0] = np.round(g.uniform(-30, 15, m), 1)
                        Wm[t + 1:, 1] = np.round(g.uniform(16, 55, m), 1)
                        Wm[t + 1:, 2] = np.round(g.choice([0.0, 0.0, 3.3, 120.0], m), 1)
                        Wm[t + 1:, 3] = np.round(g.uniform(0.1, 15, m), 2)
                    delivered["redraws"] += 1
            cand.pre_day_hooks.append(deliver)
            k = int(case["partition_k"])
            while not cand.finished:
                cand.step(k)
            res["days"] += cand.steps_done
            res["faults"]["jit_rows_delivered"] = delivered["n"]
            res["faults"]["future_redraws"] = delivered["redraws"]
            tc = cand.tables()
            if mode == "jit_nan":
                for name in ("flux", "storage", "growth"):
                    a = tc[name]
                    # a cell counts only if it is finite in the reference (crops without YldWC report a non-finite FreshYield anyway)
                    if a.shape == tr[name].shape and (~np.isfinite(a) & np.isfinite(tr[name])).any():
                        V("C14:future-value-used:non-finite-output", f"NaN poison in undelivered weather rows reached the {name} table")
            d = diff_tables(tr, tc)
            if d is not None:
                V("C14:depends-on-undelivered-weather", f"mode {mode}, future re-drawn every {r} steps, calls of {k} steps: {d}")
        elif mode == "cut":
            # explicit twins: the weather TABLE handed to the model differs from day t on (value-permuted plausible records),
            # so that whatever initialisation derives from the table as a whole is covered too - just-in-time delivery writes
            # into the already prepared matrix and cannot see look-ahead inside that preparation
            start = pd.Timestamp(parse_date(spec["start"]))
            garb = _garbage_like(true_df, g)
            for t in case["cuts"]:
                day = start + pd.Timedelta(days=int(t))
                df = true_df.copy()
                later = (df["Date"] >= day).values
                for col in ("MinTemp", "MaxTemp", "Precipitation", "ReferenceET"):
                    df.loc[later, col] = garb.loc[later, col].values
                try:
                    cand = Node(spec, objs=Objects(spec, weather_df=df))
                    cand.run_to_end()
                except CaseTimeout:
                    raise
                except Exception as e:  # noqa: BLE001
                    kind, sig = classify_exception(e)
                    if kind == "harness":
                        raise
                    # the perturbed future may legitimately be rejected or hit a recorded finding: nothing to compare
                    res["probes"]["cut_twin_not_completed"] = res["probes"].get("cut_twin_not_completed", 0) + 1
                    continue
                res["days"] += cand.steps_done
                res["evals"] += 1
                res["faults"]["weather_table_changed_from_day_t"] = res["faults"].get("weather_table_changed_from_day_t", 0) + 1
                tc = cand.tables()
                for name in ("flux", "storage", "growth"):
                    a, b = tr[name][:t], tc[name][:t]
                    m = min(len(a), len(b))
                    eq = (a[:m] == b[:m]) | (np.isnan(a[:m]) & np.isnan(b[:m]))
                    if not eq.all():
                        rr, cc = np.argwhere(~eq)[0]
                        V("C14:day-before-the-cut-depends-on-later-weather", f"weather table changed from step {t} on: {name}[row {int(rr)}, col {int(cc)}] {a[rr, cc]!r} -> {b[rr, cc]!r} ({t - int(rr)} day(s) before the cut)")
                        break
        elif mode == "outside":
            df = true_df.copy()
            for side, nrows in (("front", case["pad_front"]), ("back", case["pad_back"])):
                if nrows <= 0:
                    continue
                if side == "front":
                    dates = pd.date_range(end=df["Date"].iloc[0] - pd.Timedelta(days=1), periods=nrows, freq="D")
                else:
                    dates = pd.date_range(start=df["Date"].iloc[-1] + pd.Timedelta(days=1), periods=nrows, freq="D")
                ex = pd.DataFrame({"MinTemp": np.round(g.uniform(-40, 10, nrows), 1), "MaxTemp": np.round(g.uniform(20, 60, nrows), 1),
                                   "Precipitation": np.round(g.uniform(0, 400, nrows), 1), "ReferenceET": np.round(g.uniform(0.1, 25, nrows), 2),
                                   "Date": dates})
                df = pd.concat([ex, df] if side == "front" else [df, ex], ignore_index=True)
            # also scramble the records the spec already has outside the window
            s0, e0 = pd.Timestamp(parse_date(spec["start"])), pd.Timestamp(parse_date(spec["end"]))
            outside = (df.Date < s0) | (df.Date > e0)
            no = int(outside.sum())
            df.loc[outside, "Precipitation"] = np.round(g.uniform(0, 400, no), 1)
            df.loc[outside, "ReferenceET"] = np.round(g.uniform(0.1, 25, no), 2)
            df.loc[outside, "MinTemp"] = np.round(g.uniform(-40, 10, no), 1)
            df.loc[outside, "MaxTemp"] = np.round(g.uniform(20, 60, no), 1)
            res["faults"]["records_outside_window_scrambled"] = no
            cand = Node(spec, objs=Objects(spec, weather_df=df))
            cand.run_to_end()
            res["days"] += cand.steps_done
            d = diff_tables(tr, cand.tables())
            if d is not None:
                V("C14:depends-on-records-outside-window", f"{no} garbage records outside the window: {d}")
        else:  # extend
          exts = case["extend_days"] if isinstance(case["extend_days"], list) else [case["extend_days"]]
          for ext in exts:
            ext = int(ext)
            sp2 = clone(spec)
            new_end = parse_date(spec["end"]) + dt.timedelta(days=ext)
            if new_end.month == 2 and new_end.day == 29:
                new_end += dt.timedelta(days=1)
            sp2["end"] = fmt_date(new_end)
            label = f"extend+{ext}d"
            try:
                cand = Node(sp2)
                cand.run_to_end()
            except CaseTimeout:
                raise
            except Exception as e:  # noqa: BLE001
                kind, sig = classify_exception(e)
                if kind == "harness":
                    raise
                if kind == "permitted":
                    res["probes"]["extension_rejected"] = res["probes"].get("extension_rejected", 0) + 1
                    continue
                raise
            res["days"] += cand.steps_done
            res["evals"] += 1
            res["faults"]["end_date_extension"] = res["faults"].get("end_date_extension", 0) + 1
            tc = cand.tables()
            fin_s = tr["final"] or []
            fin_l = tc["final"] or []
            if fin_s:
                last_step = max(r[4] for r in fin_s)
                for name in ("flux", "storage", "growth"):
                    a, b = tr[name][: last_step + 1], tc[name][: last_step + 1]
                    eq = (a == b) | (np.isnan(a) & np.isnan(b))
                    if not eq.all():
                        rr, cc = np.argwhere(~eq)[0]
                        V("C14:completed-season-changed-by-extension", f"end date +{ext} days: {name}[row {int(rr)}, col {int(cc)}] {a[rr, cc]!r} -> {b[rr, cc]!r} (season completed at step {last_step} in the shorter run)")
                        break
                for i, row in enumerate(fin_s):
                    if i >= len(fin_l) or any(not (x == y or (x != x and y != y)) for x, y in zip(row, fin_l[i])):
                        V("C14:completed-season-summary-changed-by-extension", f"end date +{ext} days: summary row {row} -> {fin_l[i] if i < len(fin_l) else None}")
                        break
            else:
                res["probes"]["extend_without_completed_season"] = 1
    except CaseTimeout:
        raise
    except Exception as e:  # noqa: BLE001
        kind, sig = classify_exception(e)
        if kind == "harness":
            raise
        if mode == "jit_nan":
            V("C14:future-value-used:raises", f"NaN poison in undelivered weather rows makes the run raise {type(e).__name__}: {str(e)[:120]} [{sig}]")
        else:
            V("C14:perturbed-run-raises", f"mode {label}: {type(e).__name__}: {str(e)[:160]} [{sig}] while the reference runs")
    if in_season_days > 0:
        res["nontrivial"] = [config_sig(spec) + "#" + label + ":" + str(case.get("redraw_every")) + ":" + str(case.get("partition_k"))]
    return res
