"""C20 - disabled features and neutral settings are inert (kind C, exploration).

Twin nodes: a base configuration and the same configuration after a PRNG-chosen set of
neutral transformations (F8).  All tables must be bitwise equal.  Shrinking drops toggles
until one remains.
"""
import copy

from .common import config_sig
from ..gen import gen_spec
from ..node import Node, diff_tables
from ..spec import Objects, clone
from ..domain import classify_exception
from ..engine import CaseTimeout

ID = "C20"
LEVEL = "exploration"
N = {"quick": 160, "thorough": 6000}
BUDGET_S = {"quick": 150, "thorough": 1500}
RULE = ("twin runs per bundle: base configuration vs the same configuration after 1-4 neutral transformations drawn from: wild mulch "
        "settings without mulches; wild bund settings without bunds; curve-number percentage without its flag; parameters of "
        "unselected irrigation strategies; efficiency / wetted fraction without irrigation; mulches on with cover 0 or factor 0; "
        "constant depth 0, empty schedule, daily maximum 0, seasonal maximum 0 (each must equal rainfed); the model's own default "
        "harvest date stated explicitly. Non-trivial: the base run had at least one rainy or irrigated day so that the touched "
        "feature's code path ran; distinct = distinct (configuration signature, toggle set)")
PROFILE = {"n_seasons": [1, 1, 2], "events_per_year": 1.5, "event_kinds": ["storm", "wet_spell", "drought", "et0_spike"],
           "gw": 0.1, "custom_soil_p": 0.1, "switchgdd_p": 0.1, "off_season_p": 0.5}

FIELD_TOGGLES = ["mulch_params_off", "bund_params_off", "cnpct_without_flag", "mulch_cover0", "mulch_factor0"]
IRR_OFF_TOGGLES = ["other_strategy_params", "eff_wet_without_irrigation"]
IRR_NEUTRAL = ["depth0", "empty_schedule", "maxirr0", "maxirrseason0"]


def gen_case(rng, tier, idx):
    prof = dict(PROFILE)
    kind = rng.choice(["field", "field", "irr_neutral", "irr_off", "harvest", "combo", "combo"])
    sweep = None
    if idx % 8 == 7:
        # systematic sweep of the neutral irrigation settings: (constant depth 0, empty schedule, daily maximum 0, seasonal maximum 0)
        # x (threshold, interval, schedule, constant depth) by index, on a rain-fed base in a climate where irrigation would fire
        kind = "irr_neutral"
        sweep = (IRR_NEUTRAL[(idx // 8) % 4], [1, 2, 3, 5][(idx // 32) % 4])
        prof.update({"archetypes": ["semiarid", "warm"], "station_p": 0.2, "sensible_planting_p": 0.9, "gw": 0.0})
    if kind in ("irr_neutral",) or (kind == "combo" and rng.random() < 0.5):
        prof["irr_methods"] = [0]
    wet = kind in ("field", "combo") and rng.random() < 0.5
    if wet:
        # the code paths that read bund / mulch / curve-number settings run on wet days: ponding, saturation excess backing
        # up to the surface, runoff - make them happen (slowly draining soils, wet climates, storms, wet starts)
        prof.update({"soils": ["Paddy", "Paddy", "Paddy", "Clay", "SiltClay", "SandyClay", "ClayLoam"], "archetypes": ["tropical", "temperate"], "station_p": 0.0,
                     "event_kinds": ["storm", "storm", "wet_spell"], "events_per_year": 4.0, "sat_start_p": 0.5, "custom_soil_p": 0.0,
                     "n_seasons": [1, 2, 3], "off_season_p": 0.7})
    pond = idx % 4 == 1
    if pond:
        # shallow ponds behind low bunds that fill (storms, irrigation) and are emptied by evaporation again and again: the
        # branches that adjust evaporation for standing water are where mulch / wetted-surface settings get read
        kind = "field"
        prof.update({"soils": ["Paddy", "Clay", "SiltClay", "SandyClay"], "archetypes": ["tropical", "warm", "semiarid"], "station_p": 0.0,
                     "event_kinds": ["storm", "storm", "wet_spell", "et0_spike", "drought"], "events_per_year": 5.0, "custom_soil_p": 0.0,
                     "n_seasons": [1, 2], "off_season_p": 0.6, "bunds": 1.0, "field_p": 1.0, "fallow_field_p": 0.5, "mulch_p": 0.0,
                     "z_bund_choices": [0.02, 0.05, 0.1], "irr_methods": [0, 2, 5, 5, 3], "gw": 0.0, "sensible_planting_p": 0.9})
    spec = gen_spec(rng, prof)
    toggles = []

    def field_toggle(which):
        t = rng.choice(FIELD_TOGGLES + (["bund_params_off", "bund_params_off"] if wet else []))
        args = {"mulch_pct": rng.choice([10, 80, 100]), "f_mulch": rng.choice([0.3, 1.0]), "z_bund": rng.choice([0.1, 0.3]),
                "bund_water": rng.choice([0, 50, 200]), "pct": rng.choice([-30, -10, 15, 30])}
        return {"t": t, "which": which, "args": args}

    if pond:
        tg = field_toggle("field")
        tg["t"] = rng.choice(["mulch_params_off", "mulch_cover0", "mulch_factor0"])
        toggles.append(tg)
    elif kind in ("field", "combo"):
        toggles.append(field_toggle(rng.choice(["field", "fallow_field"])))
        if rng.random() < 0.4:
            toggles.append(field_toggle(rng.choice(["field", "fallow_field"])))
    if kind in ("irr_off", "combo") and spec["irr"]["method"] != 0:
        toggles.append({"t": "other_strategy_params", "args": {"SMT": [rng.choice([20, 60, 90])] * 4, "IrrInterval": rng.choice([1, 4, 9]),
                                                               "NetIrrSMT": rng.choice([40, 95]), "depth": rng.choice([5, 40])}})
    if spec["irr"]["method"] == 0:
        r = rng.random()
        if kind in ("irr_neutral", "combo") or r < 0.3:
            toggles.append({"t": sweep[0] if sweep else rng.choice(IRR_NEUTRAL), "args": {"method": sweep[1] if sweep else rng.choice([1, 2, 3, 5]), "SMT": [rng.choice([40, 70, 90])] * 4,
                                                                 "IrrInterval": rng.choice([1, 3, 7]), "depth": rng.choice([5, 20]),
                                                                 "schedule_n": rng.choice([3, 10])}})
        elif kind == "irr_off" or r < 0.6:
            toggles.append({"t": "eff_wet_without_irrigation", "args": {"AppEff": rng.choice([50, 70]), "WetSurf": rng.choice([10, 50])}})
    if kind in ("harvest", "combo") and spec["crop"].get("harvest_date") is None and rng.random() < (1.0 if kind == "harvest" else 0.4):
        toggles.append({"t": "explicit_default_harvest_date", "args": {"padded": rng.random() < 0.5}})
    if not toggles:
        toggles.append(field_toggle("field"))
    return {"spec": spec, "toggles": toggles}


def apply_toggles(spec, toggles, base_node):
    tw = clone(spec)
    for tg in toggles:
        t, a = tg["t"], tg["args"]
        if t in FIELD_TOGGLES:
            which = tg["which"]
            f = dict(tw.get(which) or {})
            if t == "mulch_params_off":
                if f.get("mulches"):
                    continue
                f["mulch_pct"], f["f_mulch"] = a["mulch_pct"], a["f_mulch"]
            elif t == "bund_params_off":
                if f.get("bunds"):
                    continue
                f["z_bund"], f["bund_water"] = a["z_bund"], a["bund_water"]
            elif t == "cnpct_without_flag":
                if f.get("curve_number_adj"):
                    continue
                f["curve_number_adj"] = False
                f["curve_number_adj_pct"] = a["pct"]
            elif t == "mulch_cover0":
                if f.get("mulches"):
                    continue
                f["mulches"], f["mulch_pct"], f["f_mulch"] = True, 0, a["f_mulch"]
            elif t == "mulch_factor0":
                if f.get("mulches"):
                    continue
                f["mulches"], f["mulch_pct"], f["f_mulch"] = True, a["mulch_pct"], 0.0
            tw[which] = f
        elif t == "other_strategy_params":
            m = tw["irr"]["method"]
            kw = tw["irr"]["kwargs"]
            if m != 1:
                kw["SMT"] = a["SMT"]
            if m != 2:
                kw["IrrInterval"] = a["IrrInterval"]
            if m != 4:
                kw["NetIrrSMT"] = a["NetIrrSMT"]
            if m != 5:
                kw["depth"] = a["depth"]
        elif t == "eff_wet_without_irrigation":
            if tw["irr"]["method"] == 0:
                tw["irr"]["kwargs"].update({"AppEff": a["AppEff"], "WetSurf": a["WetSurf"]})
        elif t in IRR_NEUTRAL:
            if spec["irr"]["method"] != 0:
                continue
            m = a["method"]
            kw = {}
            sched = None
            if t == "depth0":
                m = 5
                kw["depth"] = 0
            elif t == "empty_schedule":
                m = 3
                sched = []
            else:
                if m == 1:
                    kw["SMT"] = a["SMT"]
                elif m == 2:
                    kw["IrrInterval"] = a["IrrInterval"]
                elif m == 5:
                    kw["depth"] = a["depth"]
                elif m == 3:
                    from ..gen import planting_dates
                    import datetime as dt
                    from ..spec import fmt_date
                    pl = planting_dates(spec)
                    sched = [[fmt_date(pl[0] + dt.timedelta(days=7 * i)), 25] for i in range(a["schedule_n"])] if pl else []
                kw["MaxIrr" if t == "maxirr0" else "MaxIrrSeason"] = 0
            tw["irr"] = {"method": m, "kwargs": kw, "schedule": sched}
        elif t == "explicit_default_harvest_date":
            if tw["crop"].get("harvest_date") is None:
                hd = base_node.objs.crop.harvest_date
                if a.get("padded"):
                    # the same date the way a user writes it ('mm/dd' with leading zeros) instead of the model's own 'm/d'
                    mm, dd = hd.split("/")
                    hd = f"{int(mm):02d}/{int(dd):02d}"
                tw["crop"]["harvest_date"] = hd
    return tw


def run_case(case):
    spec = case["spec"]
    res = {"status": "ok", "violations": [], "faults": {}, "probes": {}, "days": 0, "nontrivial": [], "evals": 1}
    try:
        base = Node(spec, probes=("days",))
        wet = {"n": 0}

        def on_day(n, rec):
            if rec.wx[2] > 0 or rec.flux[6] > 0:
                wet["n"] += 1
            n.records.clear()
        base.day_hooks.append(on_day)
        base.run_to_end()
        tb = base.tables()
        res["days"] += base.steps_done
    except CaseTimeout:
        raise
    except Exception as e:  # noqa: BLE001
        kind, sig = classify_exception(e)
        if kind == "harness":
            raise
        res["status"] = "rejected" if kind == "permitted" else "aborted"
        res["reason"] = sig
        return res
    tw = apply_toggles(spec, case["toggles"], base)
    names = sorted(set(t["t"] for t in case["toggles"]))
    for nme in names:
        res["faults"]["toggle:" + nme] = res["faults"].get("toggle:" + nme, 0) + 1
    if tw == spec:
        res["status"] = "precondition"
        res["reason"] = "toggle set not applicable to this base configuration"
        return res
    try:
        twin = Node(tw)
        twin.run_to_end()
        res["days"] += twin.steps_done
        d = diff_tables(tb, twin.tables())
        if d is not None:
            culprits = names
            if len(case["toggles"]) > 1:
                # name the toggles that are not inert on their own (signature stable under shrinking)
                alone = []
                for tg in case["toggles"]:
                    tw1 = apply_toggles(spec, [tg], base)
                    if tw1 == spec:
                        continue
                    try:
                        n1 = Node(tw1)
                        n1.run_to_end()
                        if diff_tables(tb, n1.tables()) is not None:
                            alone.append(tg["t"])
                    except CaseTimeout:
                        raise
                    except Exception:  # noqa: BLE001
                        alone.append(tg["t"])
                culprits = sorted(set(alone)) if alone else ["combination-only"] + names
            if (spec["crop"].get("overrides") or {}).get("SwitchGDD") == 1:
                culprits = [c + ":SwitchGDD=1" if c == "explicit_default_harvest_date" else c for c in culprits]
            res["violations"].append({"sig": "C20:not-inert:" + "+".join(culprits), "msg": f"toggles {case['toggles']}: {d}", "where": {}})
    except CaseTimeout:
        raise
    except Exception as e:  # noqa: BLE001
        kind, sig = classify_exception(e)
        if kind == "harness":
            raise
        res["violations"].append({"sig": "C20:raises", "msg": f"toggles {case['toggles']} raise {type(e).__name__}: {str(e)[:160]} [{sig}] while the base configuration runs", "where": {}})
    if wet["n"] > 0:
        res["nontrivial"] = [config_sig(spec) + "#" + "+".join(names)]
    return res


def simplifiers(case, violation=None):
    tg = case["toggles"]
    if len(tg) > 1:
        for i in range(len(tg)):
            c = copy.deepcopy(case)
            del c["toggles"][i]
            yield c
    from ..minimize import spec_simplifiers
    yield from spec_simplifiers(case, violation)
