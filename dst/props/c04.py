"""C04 - fluxes non-negative, actual never exceeds potential (kind B, exploration)."""
from .common import shallow_pond_regime, SHALLOW_POND_PROFILE, std_case, std_run, hardpan_regime, HARDPAN_PROFILE, STATE_MEASURE  # noqa: F401
from ..monitors import mon_c04
from ..domain import HIGH_CCX_CROPS, CROPS

ID = "C04"
LEVEL = "exploration"
N = {"quick": 128, "thorough": 6000}
BUDGET_S = {"quick": 150, "thorough": 1500}
RULE = ("seeded swarm biased to the built-in crops with CCx > 0.96 under generous irrigation (so the canopy closes), ponded fields, "
        "mulches and partial wetting; per day all nine fluxes are checked for sign, Es <= EsPot, Tr <= TrPot and the off-season "
        "zeros. Non-trivial run: the canopy closed (CC > 0.966) or the field was ponded or mulched on some in-season day; "
        "distinct = distinct configuration signatures")
PROFILE = {"reactive_p": 0.3, "calibration_param_p": 0.25, "fixed_evap_layer_p": 0.3, "crops": HIGH_CCX_CROPS * 3 + CROPS, "irr_methods": [1, 1, 2, 4, 5, 0, 3], "bunds": 0.35, "mulch_p": 0.5, "field_p": 0.6,
           "events_per_year": 1.0, "sensible_planting_p": 0.9}


def gen_case(rng, tier, idx):
    if idx % 8 == 7:
        # a series of storms each leaving a pond of a few millimetres behind empty bunds under a stressed canopy
        return shallow_pond_regime(rng, std_case(rng, dict(PROFILE, **SHALLOW_POND_PROFILE)))
    prof = PROFILE
    if idx % 4 == 1:
        # ponded + mulched fields on slowly draining soils: small ponds that evaporation (not infiltration) exhausts,
        # partial wetting on irrigation days - the adjustments of EsPot that must not let Es overtake it
        prof = dict(PROFILE, soils=["Paddy", "Clay", "SiltClay", "SandyClay"], bunds=0.9, mulch_p=0.7, field_p=1.0, fallow_field_p=0.6,
                    z_bund_choices=[0.02, 0.05, 0.15], off_season_p=0.7, custom_soil_p=0.0, archetypes=["tropical", "temperate", "warm"],
                    event_kinds=["wet_spell", "storm", "et0_spike"], events_per_year=3.0, irr_methods=[0, 1, 2, 5, 5], n_seasons=[1, 2, 3],
                    program_param_p=0.5, crop_override_p=0.6)
    if idx % 4 == 2:
        # permeable top soil over a nearly impermeable porous pan, frequent rain: perched water, back-up, redistribution
        return hardpan_regime(rng, std_case(rng, dict(PROFILE, **HARDPAN_PROFILE)))
    case = std_case(rng, prof)
    if idx % 4 == 1 and case["spec"]["irr"]["method"] != 0:
        case["spec"]["irr"]["kwargs"]["WetSurf"] = rng.choice([10, 30, 60])
    irr = case["spec"]["irr"]
    if irr["method"] == 1 and rng.random() < 0.7:
        irr["kwargs"]["SMT"] = [rng.choice([70, 80, 90]) for _ in range(4)]
        irr["kwargs"].pop("MaxIrrSeason", None)
    return case


def _nontrivial(res):
    p = res["probes"]
    return p.get("closed_canopy_day", 0) > 0 or p.get("ponded_day", 0) > 0


def run_case(case):
    return std_run(case, [mon_c04], probes=("days",), nontrivial_fn=_nontrivial)
