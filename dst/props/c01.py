"""C01 - daily soil-water balance closes (kind B, exploration)."""
from .common import shallow_pond_regime, SHALLOW_POND_PROFILE, std_case, std_run, basin_regime, BASIN_PROFILE, hardpan_regime, HARDPAN_PROFILE, STATE_MEASURE  # noqa: F401
from ..monitors import mon_c01
from ..domain import soil_layer_table
from .common import reclamp_cn

ID = "C01"
LEVEL = "exploration"
N = {"quick": 128, "thorough": 6000}
BUDGET_S = {"quick": 150, "thorough": 1500}
RULE = ("seeded swarm of bundle specs (crop x soil x irrigation x field management x groundwater x initial water x window x "
        "weather with injected storms/droughts/heat/cold), each driven through a seeded partition of run_model calls; monitors "
        "evaluate the daily ledger, the carry-over between consecutive days and a per-process ledger (7 water-moving processes "
        "observed through the rebinding seam) on every simulated day. A run is non-trivial when at least one of runoff, deep "
        "percolation, capillary rise, ponding or irrigation was > 0 on some day; distinct = distinct configuration signatures "
        "(crop, soil, layers, strategy, bunds, mulches, fallow management, water table, off-season, initial-water kind, overrides)")
ASSUMPTIONS = ["storage is integrated with the compartment thicknesses copied at initialisation (C12 guards their constancy)"]
PROFILE = {"reactive_p": 0.3, "bunds": 0.45, "mulch_p": 0.4, "field_p": 0.6, "fallow_field_p": 0.4, "gw": 0.3, "custom_soil_p": 0.3,
           "sat_start_p": 0.2, "irr_methods": [0, 1, 2, 3, 4, 4, 5, 5], "events_per_year": 2.0, "off_season_p": 0.5,
           "n_seasons": [1, 1, 2, 2, 3]}


def gen_case(rng, tier, idx):
    if idx % 8 == 3:
        # a series of storms each leaving a pond of a few millimetres behind empty bunds under a stressed canopy
        return shallow_pond_regime(rng, std_case(rng, dict(PROFILE, **SHALLOW_POND_PROFILE)))
    if idx % 8 == 7:
        # net irrigation on a profile whose compartments inside the planting-day root zone have unequal thicknesses, starting
        # (each season) below the net-irrigation threshold: the pre-irrigation on the first day of a season fills compartments
        # of different thickness, and the depth it reports has to be the depth stored
        case = std_case(rng, dict(PROFILE, irr_methods=[4], custom_soil_p=0.0, gw=0.0, dz_p=0.0, sat_start_p=0.0, n_seasons=[1, 2, 2, 3],
                                  bunds=0.1, reactive_p=0.0))
        spec = case["spec"]
        if spec["soil"]["type"] not in ("ac_TunisLocal",):
            top = rng.choice([[0.05, 0.05, 0.1, 0.1], [0.05] * 4 + [0.1], [0.02, 0.03, 0.05, 0.1, 0.1], [0.1, 0.05, 0.05, 0.1], [0.15, 0.05, 0.1]])
            rest = rng.choice([[0.1] * 10, [0.1] * 18, [0.1, 0.1] + [0.2] * 6])
            spec["soil"]["kwargs"] = dict(spec["soil"].get("kwargs") or {}, dz=list(top) + list(rest))
            reclamp_cn(spec)
        spec["irr"]["kwargs"]["NetIrrSMT"] = rng.choice([50, 70, 80, 90, 100])
        if rng.random() < 0.8:
            spec["iwc"] = (rng.choice([{"wc_type": "Prop", "method": "Layer", "depth_layer": [1], "value": ["WP"]},
                                       {"wc_type": "Pct", "method": "Layer", "depth_layer": [1], "value": [rng.choice([0, 10, 30, 50])]}])
                           if len(soil_layer_table(spec["soil"])) == 1 else spec["iwc"])
        case["controller"] = None
        return case
    if idx % 4 == 1:
        # flooded basin whose management changes at harvest (bunds lowered or removed) with the off-season simulated
        return basin_regime(rng, std_case(rng, dict(PROFILE, **BASIN_PROFILE)))
    if idx % 4 == 2:
        # permeable top soil over a nearly impermeable porous pan, frequent rain
        return hardpan_regime(rng, std_case(rng, dict(PROFILE, **HARDPAN_PROFILE)))
    return std_case(rng, PROFILE)


def _nontrivial(res):
    p = res["probes"]
    return any(p.get(k, 0) > 0 for k in ("runoff_day", "deep_percolation_day", "capillary_rise_day", "ponded_day"))


def run_case(case):
    return std_run(case, [mon_c01], probes=("days", "ledger"), nontrivial_fn=_nontrivial)
