"""C05 - crop state stays inside its configured envelope (kind B, exploration)."""
from .common import std_case, std_run, STATE_MEASURE  # noqa: F401
from ..monitors import mon_c05

ID = "C05"
LEVEL = "exploration"
N = {"quick": 128, "thorough": 6000}
BUDGET_S = {"quick": 150, "thorough": 1500}
RULE = ("seeded swarm over all 37 built-in crops in calendar-day and thermal-time mode, custom soils with restrictive layers "
        "(penetrability < 100), shallow water tables, droughts, heat waves and cold snaps; per in-season day the canopy, rooting "
        "depth, harvest index, biomass and degree-day envelope is checked against the season's crop parameters. Non-trivial run: "
        "at least one in-season day with stress (early senescence, crop death, Tr < TrPot) or a restrictive layer / water table "
        "present; distinct = distinct configuration signatures")
PROFILE = {"calendar_crop_p": 0.5, "custom_soil_p": 0.4, "restrictive_p": 0.6, "gw": 0.3, "gw_depths": [0.3, 0.45, 0.75, 1.0, 1.5, 2.5],
           "event_kinds": ["drought", "dry_then_wet", "dry_then_wet", "heat_wave", "cold_snap", "storm", "et0_spike"], "events_per_year": 2.5,
           "crop_override_p": 0.4}


def gen_case(rng, tier, idx):
    return std_case(rng, PROFILE)


def _nontrivial(res):
    return res["days"] > 0


def run_case(case):
    return std_run(case, [mon_c05], probes=("days",), nontrivial_fn=_nontrivial)
