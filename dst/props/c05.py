"""C05 - crop state stays inside its configured envelope (kind B, exploration)."""
from .common import reclamp_cn, std_case, std_run, STATE_MEASURE  # noqa: F401
from ..monitors import mon_c05

ID = "C05"
LEVEL = "exploration"
N = {"quick": 128, "thorough": 6000}
BUDGET_S = {"quick": 150, "thorough": 1500}
RULE = ("seeded swarm over all 37 built-in crops in calendar-day and thermal-time mode, custom soils with restrictive layers "
        "(penetrability < 100), shallow water tables, droughts, heat waves and cold snaps; per in-season day the canopy, rooting "
        "depth, harvest index, biomass and degree-day envelope is checked against the season's crop parameters. Non-trivial run: "
        "at least one in-season day with stress (early senescence, crop death, Tr < TrPot) or a restrictive layer / water table "
        "present; distinct = distinct configuration signatures")
PROFILE = {"reactive_p": 0.3, "calibration_param_p": 0.25, "calendar_crop_p": 0.5, "custom_soil_p": 0.4, "restrictive_p": 0.6, "gw": 0.3, "gw_depths": [0.3, 0.45, 0.75, 1.0, 1.5, 2.5],
           "event_kinds": ["drought", "dry_then_wet", "dry_then_wet", "heat_wave", "cold_snap", "storm", "et0_spike"], "events_per_year": 2.5,
           "crop_override_p": 0.4}


STRONG_HI_RESPONSE_CROPS = ["Cotton", "Cotton", "CottonGDD", "Sorghum", "SorghumGDD", "Tef"]


def gen_case(rng, tier, idx):
    if idx % 8 in (3, 7):
        # crops whose harvest index responds strongly to moderate water stress after flowering (small a_HI) under deficit
        # irrigation or rain-fed in a dry climate with re-watering: the stress multiplier presses against its cap 1 + dHI0/100
        prof = dict(PROFILE, crops=STRONG_HI_RESPONSE_CROPS, gw=0.0, custom_soil_p=0.1, restrictive_p=0.0, irr_methods=[1, 1, 1, 1, 0],
                    archetypes=["semiarid", "warm", "temperate"], station_p=0.2, sensible_planting_p=0.95, crop_override_p=0.1,
                    event_kinds=["drought", "dry_then_wet", "dry_then_wet"], events_per_year=2.0, iwc_kinds=["Pct", "Prop"], sat_start_p=0.0)
        case = std_case(rng, prof)
        irr = case["spec"]["irr"]
        if irr["method"] == 1:
            # small, frequent applications that hold the depletion just below the stomatal threshold (leaf expansion is
            # hampered, transpiration is not): the combination the upward adjustment rewards most
            lo = rng.choice([35, 40, 45, 50])
            irr["kwargs"]["SMT"] = [rng.choice([60, 80, lo]), lo, lo, lo]
            irr["kwargs"]["MaxIrr"] = rng.choice([6, 10, 15, 25])
            irr["kwargs"].pop("MaxIrrSeason", None)
        pin = rng.random() < 0.65
        if pin:
            # net irrigation with a low target pins the depletion between the expansion and the stomatal threshold for weeks;
            # a start at or above field capacity lets the crop reach flowering before the target is met
            case["spec"]["irr"] = {"method": 4, "kwargs": {"NetIrrSMT": rng.choice([26, 28, 30, 32, 32, 34, 36, 40, 45])}, "schedule": None}
            case["controller"] = None
            if rng.random() < 0.6:
                case["spec"]["iwc"] = {"wc_type": "Pct", "method": "Layer", "depth_layer": [1], "value": [rng.choice([90, 100, 100])]}
                case["spec"]["weather"]["events"] = [e for e in case["spec"]["weather"]["events"] if e["kind"] != "drought"]
        # a short cold or hot spell somewhere in the flowering period: pollination falls a little short of complete
        from ..gen import season_spans
        from ..spec import parse_date
        from ..domain import CROP_INFO
        w = case["spec"]["weather"]
        off = (parse_date(case["spec"]["start"]) - parse_date(w["start"])).days
        mat = CROP_INFO[case["spec"]["crop"]["name"]]["MaturityCD"]
        for a, b in season_spans(case["spec"]):
            if rng.random() < (0.9 if pin else 0.7):
                d = a + int(mat * rng.uniform(0.3, 0.6))
                w["events"].append({"kind": rng.choice(["cold_snap", "cold_snap", "heat_wave"]), "day": off + d, "len": rng.choice([2, 4, 7, 12, 20, 35, 35]),
                                    "mag": round(rng.uniform(3, 16), 1)})
                if pin and rng.random() < 0.5:
                    # a second, short spell at the edge of the flowering period: a few per cent of the flowers are lost
                    d2 = a + int(mat * rng.uniform(0.3, 0.7))
                    w["events"].append({"kind": rng.choice(["cold_snap", "heat_wave"]), "day": off + d2, "len": rng.choice([1, 2, 3, 5]),
                                        "mag": round(rng.uniform(5, 20), 1)})
        return case
    case = std_case(rng, PROFILE)
    if idx % 4 == 1:
        # profiles with three or four horizons, a plough layer no thicker than the minimum rooting depth, mixed
        # penetrabilities, deep-rooting crops kept growing by irrigation: roots cross every horizon boundary
        spec = case["spec"]
        dz = list(rng.choice([[0.1] * 12, [0.05] * 4 + [0.1] * 10, [0.1] * 20]))
        nh = rng.choice([3, 3, 4])
        thick = [rng.choice([0.1, 0.2, 0.3])] + [rng.choice([0.2, 0.3, 0.5]) for _ in range(nh - 2)] + [3.0]
        layers = []
        for i, th in enumerate(thick):
            wp = round(rng.uniform(0.06, 0.25), 3)
            fc = round(wp + rng.uniform(0.08, 0.2), 3)
            sat = round(fc + rng.uniform(0.03, 0.15), 3)
            pen = 100 if (i == 0 or rng.random() < 0.5) else rng.choice([20, 50, 80])
            layers.append(["hyd", th, wp, fc, sat, rng.choice([35, 100, 500, 1200]), pen])
        spec["soil"] = {"type": "custom", "kwargs": {"dz": dz, "cn": 61, "rew": 9}, "layers": layers}
        spec["iwc"] = {"wc_type": "Pct", "method": "Layer", "depth_layer": list(range(1, nh + 1)), "value": [rng.choice([60, 80, 100]) for _ in range(nh)]}
        spec["irr"] = {"method": rng.choice([1, 1, 2]), "kwargs": {"SMT": [70] * 4, "IrrInterval": 5, "MaxIrr": 40}, "schedule": None}
        spec["gw"] = None
        case["controller"] = None
        reclamp_cn(spec)
    return case


def _nontrivial(res):
    return res["days"] > 0


def run_case(case):
    return std_run(case, [mon_c05], probes=("days",), nontrivial_fn=_nontrivial)
