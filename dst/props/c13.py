"""C13 - irrigation strategies honour their contracts (kind B, exploration)."""
from .common import year_long_case, std_case, std_run, STATE_MEASURE  # noqa: F401
from ..monitors import mon_c13

ID = "C13"
LEVEL = "exploration"
N = {"quick": 160, "thorough": 6000}
BUDGET_S = {"quick": 150, "thorough": 1500}
RULE = ("seeded swarm over strategies 0-5 with daily/seasonal maxima (binding and not), efficiency, thresholds per growth stage, "
        "intervals, dated schedules incl. dates outside seasons and windows, constant depth with controller writes between steps; "
        "the inputs and outputs of the irrigation decision are captured through the rebinding seam and compared with a reference "
        "model per strategy written from the property text (the threshold reference integrates the root zone independently from the "
        "state the decision saw; days within 0.02 mm x compartments of the threshold, or on which the growth stage changes and the "
        "two stages disagree, are counted undecidable, never passed). Non-trivial run: at least one irrigation day, or a binding "
        "cap, or an out-of-season scheduled date; distinct = distinct configuration signatures")
PROFILE = {"reactive_p": 0.3, "irr_methods": [0, 1, 1, 1, 2, 2, 3, 3, 4, 5, 5], "season_cap_p": 0.45, "n_seasons": [1, 1, 2, 3], "off_season_p": 0.5,
           "event_kinds": ["drought", "drought", "heat_wave", "et0_spike", "storm"], "events_per_year": 2.0, "field_p": 0.25,
           "gw": 0.1, "custom_soil_p": 0.2}


def gen_case(rng, tier, idx):
    if idx % 8 == 5:
        # year-long seasons that touch (harvest date = next planting date): seasonal totals and counters across the boundary
        return year_long_case(rng, PROFILE)
    if idx % 4 == 3:
        # threshold irrigation whose targets differ strongly between growth stages, on crops in both calendar modes, with the
        # development clock running apart from the calendar (dry seed bed -> delayed germination; dry spells): the days
        # around every stage change then separate "this stage's target" from "the neighbouring stage's target"
        prof = dict(PROFILE, irr_methods=[1], calendar_crop_p=0.4, iwc_kinds=["Pct", "Prop"], sat_start_p=0.0, gw=0.0, custom_soil_p=0.0,
                    event_kinds=["drought", "dry_then_wet", "drought"], events_per_year=3.0, season_cap_p=0.0, sensible_planting_p=0.9, field_p=0.0)
        case = std_case(rng, prof)
        spec = case["spec"]
        spec["irr"]["kwargs"]["SMT"] = rng.choice([[0, 80, 20, 80], [90, 10, 90, 10], [0, 70, 30, 70], [30, 90, 0, 60], [100, 0, 100, 0]])
        spec["irr"]["kwargs"].pop("MaxIrrSeason", None)
        if rng.random() < 0.7:
            iwc = spec["iwc"]
            if iwc["wc_type"] == "Prop":
                iwc["value"] = ["WP" for _ in iwc["value"]]
            else:
                iwc["value"] = [rng.choice([0, 5, 10, 15]) for _ in iwc["value"]]
        return case
    if idx % 4 == 1:
        # dated schedules over several seasons with the off-season mostly skipped: entries on and around every season's first
        # and last growing day, where the day index the schedule is read by meets the jump to the next planting date
        import datetime as dt
        from ..gen import planting_dates
        from ..spec import fmt_date, parse_date
        from ..domain import CROP_INFO
        prof = dict(PROFILE, irr_methods=[3], n_seasons=[2, 3, 3], off_season_p=0.25, calendar_crop_p=0.7, sensible_planting_p=0.9)
        case = std_case(rng, prof)
        spec = case["spec"]
        mat = CROP_INFO[spec["crop"]["name"]]["MaturityCD"]
        have = {d for d, _ in (spec["irr"]["schedule"] or [])}
        sched = list(spec["irr"]["schedule"] or [])
        for p in planting_dates(spec):
            for off in (0, 1, mat - 2, mat - 1, mat):
                d = fmt_date(p + dt.timedelta(days=off))
                if rng.random() < 0.6 and d not in have and spec["start"] <= d <= spec["end"]:
                    have.add(d)
                    sched.append([d, rng.choice([5, 10, 20, 30, 50])])
        spec["irr"]["schedule"] = sorted(sched)
        return case
    return std_case(rng, PROFILE)


def _nontrivial(res):
    st = (res.get("ctx").state.get("c13") or {}) if res.get("ctx") is not None else {}
    res["probes"]["threshold_days_decided"] = st.get("decided", 0)
    res["probes"]["undecidable_threshold_days"] = st.get("undecidable", 0)
    res["probes"]["irrigation_days"] = st.get("irrigated", 0)
    res["probes"]["seasonal_cap_binding"] = st.get("cap_bound", 0)
    return st.get("irrigated", 0) > 0 or st.get("cap_bound", 0) > 0


def run_case(case):
    return std_run(case, [mon_c13], probes=("days", "irr"), nontrivial_fn=_nontrivial)
