"""Shared pieces of the per-property checks."""
import datetime as _dt

from .. import boot  # noqa: F401
from ..gen import gen_spec, planting_dates
from ..spec import parse_date
from ..traj import run_trajectory, finish

STATE_MEASURE = ("distinct per-day tuples (in season, growth stage, germinated, senescing, dead, table in soil, ponded, "
                 "runoff>0, percolation>0, CR>0, irrigated, evaporation stage 2, Tr/TrPot quartile)")


def config_sig(spec):
    f = spec.get("field") or {}
    ff = spec.get("fallow_field") or {}
    return "|".join(str(x) for x in (
        spec["crop"]["name"], spec["soil"]["type"], len(spec["soil"].get("layers") or []),
        spec["irr"]["method"], int(bool(f.get("bunds"))), int(bool(f.get("mulches"))), int(bool(ff)),
        int(spec.get("gw") is not None), int(bool(spec.get("off_season"))), spec["iwc"]["wc_type"],
        spec["iwc"]["method"], int(bool(spec["crop"].get("overrides")))))


def gen_controller(rng, spec):
    """K1: sparse controller writes of IrrMngt.depth between steps (Notebook 2 pattern), explicit list"""
    if spec["irr"]["method"] != 5:
        return None
    n = (parse_date(spec["end"]) - parse_date(spec["start"])).days + 1
    out = []
    d = 0
    while d < n:
        d += rng.choice([1, 1, 2, 5, 10, 25, 60])
        out.append([d, rng.choice([0, 0, 1, 3, 8, 15, 30, 60])])
    return out


def controller_fn(writes, fired):
    """returns controller(node, rec, ctx) applying the explicit write list after day rec.t"""
    if not writes:
        return None
    table = {int(d): float(x) for d, x in writes}

    def controller(node, rec, ctx):
        x = table.get(rec.t + 1)
        if x is not None:
            node.model._param_struct.IrrMngt.depth = x
            ctx.state["depth_in_force"] = x
            fired["controller_write"] = fired.get("controller_write", 0) + 1
    return controller


def std_case(rng, profile):
    spec = gen_spec(rng, profile)
    case = {"spec": spec, "partition": rng.choice(profile.get("partitions", ["ones", "small", "medium", "mixed", "large", "all"])),
            "part_seed": rng.getrandbits(32), "controller": gen_controller(rng, spec),
            "first_call_init": rng.random() < 0.3}
    return case


def std_run(case, monitors, probes=("days",), nontrivial_fn=None, extra_faults=None, final_fn=None):
    spec = case["spec"]
    fired = {}
    ctrl = controller_fn(case.get("controller"), fired)
    res = run_trajectory(spec, monitors, probes=probes, partition=case.get("partition"),
                         controller=ctrl, first_call_init=bool(case.get("first_call_init")),
                         part_seed=case.get("part_seed", 0))
    for ev in (spec.get("weather") or {}).get("events") or []:
        k = "event:" + ev["kind"]
        res["faults"][k] = res["faults"].get(k, 0) + 1
    for k, v in fired.items():
        res["faults"][k] = res["faults"].get(k, 0) + v
    if res["status"] == "ok" and final_fn is not None:
        node = res["node"]
        ctx = res["ctx"]
        for sig, msg in final_fn(ctx, node, spec):
            if not any(v["sig"] == sig for v in res["violations"]):
                res["violations"].append({"sig": sig, "msg": msg, "where": {}})
    if res["status"] == "ok" and nontrivial_fn is not None and nontrivial_fn(res):
        res["nontrivial"] = [config_sig(spec)]
    return finish(res)
