"""Shared pieces of the per-property checks."""
import datetime as _dt

from .. import boot  # noqa: F401
from ..gen import gen_spec, planting_dates
from ..spec import parse_date
from ..traj import run_trajectory, finish

STATE_MEASURE = ("distinct per-day tuples (in season, growth stage, germinated, senescing, dead, table in soil, ponded, "
                 "runoff>0, percolation>0, CR>0, irrigated, evaporation stage 2, Tr/TrPot quartile)")


def config_sig(spec):
    f = spec.get("field") or {}
    ff = spec.get("fallow_field") or {}
    return "|".join(str(x) for x in (
        spec["crop"]["name"], spec["soil"]["type"], len(spec["soil"].get("layers") or []),
        spec["irr"]["method"], int(bool(f.get("bunds"))), int(bool(f.get("mulches"))), int(bool(ff)),
        int(spec.get("gw") is not None), int(bool(spec.get("off_season"))), spec["iwc"]["wc_type"],
        spec["iwc"]["method"], int(bool(spec["crop"].get("overrides")))))


def gen_controller(rng, spec):
    """K1: sparse controller writes of IrrMngt.depth between steps (Notebook 2 pattern), explicit list"""
    if spec["irr"]["method"] != 5:
        return None
    n = (parse_date(spec["end"]) - parse_date(spec["start"])).days + 1
    out = []
    d = 0
    while d < n:
        d += rng.choice([1, 1, 2, 5, 10, 25, 60])
        out.append([d, rng.choice([0, 0, 1, 3, 8, 15, 30, 60])])
    return out


def controller_fn(writes, fired):
    """returns controller(node, rec, ctx) applying the explicit write list after day rec.t"""
    if not writes:
        return None
    table = {int(d): float(x) for d, x in writes}

    def controller(node, rec, ctx):
        x = table.get(rec.t + 1)
        if x is not None:
            node.model._param_struct.IrrMngt.depth = x
            ctx.state["depth_in_force"] = x
            fired["controller_write"] = fired.get("controller_write", 0) + 1
    return controller


def std_case(rng, profile):
    spec = gen_spec(rng, profile)
    if "reactive_p" in profile and rng.random() < profile["reactive_p"]:
        # state-triggered weather faults (traj.make_reactive_hook): placed by what the model is doing, not by the calendar
        from ..traj import gen_reactive
        spec["reactive"] = gen_reactive(rng, triggers=profile.get("reactive_triggers"))
    case = {"spec": spec, "partition": rng.choice(profile.get("partitions", ["ones", "small", "medium", "mixed", "large", "all"])),
            "part_seed": rng.getrandbits(32), "controller": gen_controller(rng, spec),
            "first_call_init": rng.random() < 0.3}
    return case


def std_run(case, monitors, probes=("days",), nontrivial_fn=None, extra_faults=None, final_fn=None):
    spec = case["spec"]
    fired = {}
    ctrl = controller_fn(case.get("controller"), fired)
    res = run_trajectory(spec, monitors, probes=probes, partition=case.get("partition"),
                         controller=ctrl, first_call_init=bool(case.get("first_call_init")),
                         part_seed=case.get("part_seed", 0))
    for ev in (spec.get("weather") or {}).get("events") or []:
        k = "event:" + ev["kind"]
        res["faults"][k] = res["faults"].get(k, 0) + 1
    for k, v in fired.items():
        res["faults"][k] = res["faults"].get(k, 0) + v
    if res["status"] == "ok" and final_fn is not None:
        node = res["node"]
        ctx = res["ctx"]
        for sig, msg in final_fn(ctx, node, spec):
            if not any(v["sig"] == sig for v in res["violations"]):
                res["violations"].append({"sig": sig, "msg": msg, "where": {}})
    if res["status"] == "ok" and nontrivial_fn is not None and nontrivial_fn(res):
        res["nontrivial"] = [config_sig(spec)]
    return finish(res)


def reclamp_cn(spec):
    """after a regime replaced the soil: keep the adjusted curve number of both managements inside the documented range
    (the percentage was drawn for the curve number of the soil that was replaced)"""
    import math
    from ..domain import SOIL_CN
    soil = spec["soil"]
    from ..gen import soil_cn
    cn = soil_cn(soil)
    hi = math.floor((100.0 / cn - 1) * 100)
    lo = math.ceil((20.0 / cn - 1) * 100)
    for key in ("field", "fallow_field"):
        f = spec.get(key)
        if f and f.get("curve_number_adj") and "curve_number_adj_pct" in f:
            f["curve_number_adj_pct"] = max(lo, min(hi, f["curve_number_adj_pct"]))


BASIN_PROFILE = {"calendar_crop_p": 0.7, "n_seasons": [2, 2, 3], "off_season_p": 1.0, "gw": 0.0, "custom_soil_p": 0.0,
                 "soils": ["Clay", "SiltClay", "SandyClay", "Paddy", "ClayLoam"], "sensible_planting_p": 0.95, "end_kinds": ["after"]}


def basin_regime(rng, case, harvest=None):
    """Flooded-basin regime shared by the water checks: high bunds kept ponded by constant-depth / interval irrigation in
    the season, lower or no bunds in the fallow period, off-season simulated, slowly draining soils; around each harvest
    either no water at all ("dry": the pond meets the switch of management undisturbed) or rain harder than the surface
    can take on the days around it ("wet")."""
    from ..gen import season_spans
    spec = case["spec"]
    spec["off_season"] = True
    r = rng.random()
    if r < 0.5:
        # puddled uniform clay: intake of a few mm/day only, so that the basin really stays flooded
        wp = round(rng.uniform(0.25, 0.33), 3)
        fc = round(wp + rng.uniform(0.1, 0.15), 3)
        spec["soil"] = {"type": "custom", "kwargs": {"dz": [0.1] * 12, "cn": 77, "rew": 10},
                        "layers": [["hyd", 3.2, wp, fc, round(fc + rng.uniform(0.03, 0.08), 3), rng.choice([2, 5, 10]), 100]]}
        spec["iwc"] = {"wc_type": "Prop", "method": "Layer", "depth_layer": [1], "value": [rng.choice(["FC", "SAT"])]}
    elif r < 0.8:
        spec["soil"] = {"type": "Paddy", "kwargs": {}, "layers": None}
        spec["iwc"] = {"wc_type": "Prop", "method": "Layer", "depth_layer": [1, 2], "value": [rng.choice(["FC", "SAT"]), rng.choice(["FC", "SAT"])]}
    elif spec["soil"]["type"] not in ("Clay", "SiltClay", "SandyClay", "Paddy"):
        spec["soil"] = {"type": rng.choice(["Clay", "SiltClay", "SandyClay", "Clay"]), "kwargs": {}, "layers": None}
        spec["iwc"] = {"wc_type": "Prop", "method": "Layer", "depth_layer": [1], "value": [rng.choice(["FC", "SAT"])]}
    spec["gw"] = None
    spec["field"] = {"bunds": True, "z_bund": rng.choice([0.15, 0.2, 0.3]), "bund_water": rng.choice([0, 50, 100])}
    spec["fallow_field"] = rng.choice([{"bunds": True, "z_bund": rng.choice([0.02, 0.05, 0.1])}, {"bunds": True, "z_bund": 0.05, "bund_water": 20},
                                       None, None, {"bunds": False, "z_bund": 0.1}])
    m = rng.choice([5, 5, 5, 2, 3, 3])
    if m == 3:
        sched = []
        for p in planting_dates(spec):
            t = 0
            while t < 400:
                sched.append([(p + _dt.timedelta(days=t)).strftime("%Y/%m/%d"), rng.choice([30, 40, 60])])
                t += rng.choice([2, 3, 4])
        seen = set()
        sched = [s for s in sched if not (s[0] in seen or seen.add(s[0])) and spec["start"] <= s[0] <= spec["end"]]
        spec["irr"] = {"method": 3, "kwargs": {"AppEff": rng.choice([100, 90, 70]), "MaxIrr": 80}, "schedule": sched}
    else:
        spec["irr"] = {"method": m, "kwargs": ({"depth": rng.choice([20, 30, 40]), "MaxIrr": 40} if m == 5 else {"IrrInterval": 3, "MaxIrr": 60}), "schedule": None}
        if rng.random() < 0.4:
            spec["irr"]["kwargs"]["AppEff"] = rng.choice([90, 70, 50])
    case["controller"] = None
    reclamp_cn(spec)
    w = spec["weather"]
    off = (parse_date(spec["start"]) - parse_date(w["start"])).days
    harvest = harvest or rng.choice(["dry", "wet", "wet"])
    w["events"] = [e for e in w.get("events", []) if e["kind"] not in ("storm", "wet_spell")]
    for a, b in season_spans(spec):
        if harvest == "dry":
            w["events"].append({"kind": "drought", "day": off + b - 20, "len": 60, "mag": 0.0})
        else:
            for d in range(b - 2, b + 4):
                if rng.random() < 0.5:
                    w["events"].append({"kind": "storm", "day": off + d, "len": 1, "mag": rng.choice([20.0, 40.0, 60.0, 120.0])})
    if harvest == "wet":
        # and, wherever the season really ends (crops drown in a basin), rain on the very day the other management takes over
        spec["reactive"] = [{"when": rng.choice(["season_end_ponded", "season_end_ponded", "season_end", "season_start"]), "action": "storm",
                             "mag": rng.choice([12.0, 25.0, 40.0, 60.0, 120.0]), "len": 1, "delay": rng.choice([0, 0, 0, 1]), "max_fires": 4}]
    return case


HARDPAN_PROFILE = {"custom_soil_p": 0.0, "gw": 0.0, "archetypes": ["temperate", "tropical", "warm", "continental"], "station_p": 0.3,
                   "event_kinds": ["storm", "storm", "wet_spell", "wet_spell", "drought"], "events_per_year": 4.0, "off_season_p": 0.7,
                   "iwc_kinds": ["Prop"], "sat_start_p": 0.0}


def hardpan_regime(rng, case):
    """Permeable top soil over a nearly impermeable, porous pan (plough pan, puddled sub-soil, clay pan): the sub-layer's own
    drainage ability tau*(th_s - th_fc)*dz exceeds its conductivity, water perches above it, backs up and is redistributed
    upwards.  Frequent rain, and light rain again the day after the top soil was saturated."""
    spec = case["spec"]
    from ..domain import CROP_INFO
    dz = list(rng.choice([[0.1] * 12, [0.15] * 8, [0.2] * 6, [0.1, 0.1, 0.1, 0.15, 0.15, 0.2, 0.2, 0.2], [0.05] * 4 + [0.1] * 10]))
    # deep enough for the crop as given (no deepening: the deepening loop thickens the listed compartments, which moves the
    # layer boundaries off the compartment boundaries), layers cut on compartment boundaries
    zmax = CROP_INFO[spec["crop"]["name"]]["Zmax"]
    while round(sum(dz), 2) < zmax + 0.1:
        dz.append(0.2)
    k1 = rng.choice([1, 2, 3, 4])
    top = round(sum(dz[:k1]), 2)
    k2 = rng.choice([1, 2, 3, None])
    if k2 is not None and k1 + k2 >= len(dz):
        k2 = None
    pan_thick = 3.0 + sum(dz) if k2 is None else round(sum(dz[k1:k1 + k2]), 2)
    wp1 = round(rng.uniform(0.05, 0.15), 3)
    fc1 = round(wp1 + rng.uniform(0.08, 0.15), 3)
    layers = [["hyd", top, wp1, fc1, round(fc1 + rng.uniform(0.1, 0.2), 3), rng.choice([225, 500, 1200]), 100]]
    wp2 = round(rng.uniform(0.15, 0.3), 3)
    fc2 = round(wp2 + rng.uniform(0.08, 0.14), 3)
    pan = ["hyd", pan_thick, wp2, fc2, round(fc2 + rng.uniform(0.1, 0.2), 3), rng.choice([0.5, 1, 1, 2, 2, 5]), rng.choice([100, 100, 50])]
    layers.append(pan)
    if k2 is not None:
        wp3 = round(rng.uniform(0.08, 0.2), 3)
        fc3 = round(wp3 + rng.uniform(0.08, 0.15), 3)
        layers.append(["hyd", 3.0 + round(sum(dz), 2), wp3, fc3, round(fc3 + rng.uniform(0.05, 0.15), 3), rng.choice([35, 100, 500]), 100])
    spec["soil"] = {"type": "custom", "kwargs": {"dz": dz, "cn": rng.choice([46, 61, 77]), "rew": 9}, "layers": layers}
    spec["iwc"] = {"wc_type": "Prop", "method": "Layer", "depth_layer": list(range(1, len(layers) + 1)),
                   "value": [rng.choice(["FC", "FC", "WP", "SAT"]) for _ in layers]}
    spec["gw"] = None
    reclamp_cn(spec)
    spec["reactive"] = [{"when": "top_soil_saturated", "action": "storm", "mag": rng.choice([1.0, 2.0, 5.0, 12.0]), "len": rng.choice([1, 2]),
                         "delay": rng.choice([0, 1, 1]), "max_fires": 8}]
    return case


SHALLOW_POND_PROFILE = {"gw": 0.0, "custom_soil_p": 0.0, "soils": ["Clay", "SiltClay", "SandyClay", "Paddy", "ClayLoam"], "irr_methods": [0, 0, 0, 1],
                        "calendar_crop_p": 0.8, "sensible_planting_p": 0.95, "n_seasons": [1, 2], "iwc_kinds": ["Pct"], "sat_start_p": 0.0,
                        "station_p": 0.0, "events_per_year": 0.0, "dz_p": 0.0}


def shallow_pond_regime(rng, case):
    """Rain-fed field behind empty bunds on a slowly draining soil, a moderately dry start (a canopy that has known stress),
    no rain except a series of single-day storms whose depth steps through (top-soil conductivity + 0..9 mm): every storm
    leaves a pond of a few millimetres at most - the depth at which evaporation, transpiration from the pond, infiltration
    and the aeration lag meet within one day - and the pond is gone before the next storm."""
    from ..gen import season_spans
    from ..spec import build_soil
    spec = case["spec"]
    ksat = float(build_soil(spec["soil"]).profile.Ksat.iloc[0])
    spec["iwc"]["value"] = [rng.choice([40, 55, 70, 85]) for _ in spec["iwc"]["value"]]
    spec["gw"] = None
    f = dict(spec.get("field") or {})
    f.update({"bunds": True, "z_bund": rng.choice([0.05, 0.15, 0.25]), "bund_water": 0})
    spec["field"] = f
    reclamp_cn(spec)
    case["controller"] = None
    w = spec["weather"]
    off = (parse_date(spec["start"]) - parse_date(w["start"])).days
    n = len(w["tmin"])
    w["events"] = [{"kind": "drought", "day": 0, "len": n, "mag": 0.0}]
    for a, b in season_spans(spec):
        t = a + rng.choice([15, 25, 40])
        while t < b + 10:
            w["events"].append({"kind": "storm", "day": off + t, "len": 1, "mag": round(ksat + rng.uniform(0.0, 9.0), 1)})
            t += rng.choice([4, 6, 9])
    return case


TABLE_JUMP_PROFILE = {"gw": 1.0, "gw_jump_p": 1.0, "gw_unordered_p": 0.0, "custom_soil_p": 0.1, "dz_p": 0.2, "n_seasons": [1, 2, 2, 3], "events_per_year": 1.0,
                      "soils": ["Sand", "LoamySand", "SandyLoam", "Loam", "SiltLoam", "Clay", "Paddy", "ac_TunisLocal"]}


def table_jump_regime(rng, case):
    """A water table that alternates between a shallow and a deep regime from one observation to the next (drainage works,
    pumping, a flood) with the moves placed inside the growing seasons, and rain on the very day it moves: the adjusted field
    capacity, capillary rise and the saturation of submerged compartments all change at once while water arrives from above."""
    from ..gen import season_spans
    spec = case["spec"]
    start, end = parse_date(spec["start"]), parse_date(spec["end"])
    n = (end - start).days + 1
    offs = set()
    for a, b in season_spans(spec):
        lo, hi = max(1, a + 5), min(n - 2, b - 3)
        for _ in range(rng.choice([2, 3, 4])):
            if hi > lo:
                offs.add(rng.randint(lo, hi))
    offs = [0] + sorted(offs)
    method = rng.choice(["Constant", "Constant", "Variable"])
    shallow = rng.choice([0.3, 0.5, 0.8, 1.2])
    deep = rng.choice([3.0, 4.5, 7.0, 12.0])
    flip = rng.random() < 0.5
    dates, vals = [], []
    for j, o in enumerate(offs):
        v = shallow if (j % 2 == 0) != flip else deep
        if method == "Variable" and j > 0 and o - 1 > offs[j - 1]:
            # hold the previous level until the eve of the move, so that the interpolated table moves within one day as well
            dates.append((start + _dt.timedelta(days=o - 1)).strftime("%Y%m%d"))
            vals.append(vals[-1])
        dates.append((start + _dt.timedelta(days=o)).strftime("%Y%m%d"))
        vals.append(round(v + rng.uniform(0, 0.1), 2))
    if method == "Variable" and offs[-1] != n - 1:
        dates.append(end.strftime("%Y%m%d"))
        vals.append(vals[-1])
    spec["gw"] = {"water_table": "Y", "method": method, "dates": dates, "values": vals}
    spec["reactive"] = [{"when": rng.choice(["water_table_drops", "water_table_drops", "water_table_rises"]), "action": "storm",
                         "mag": rng.choice([8.0, 15.0, 25.0, 40.0, 60.0]), "len": 1, "delay": 0, "max_fires": 8}]
    return case


def year_long_case(rng, profile):
    """Year-long seasons: a crop that stands (nearly) a full year, harvested and replanted on the same date or within days of it,
    so that a season's last day and the next season's first day touch - mostly irrigated, mostly with the off-season simulated."""
    from ..domain import CROP_INFO  # noqa: F401
    case = std_case(rng, dict(profile, crops=["SugarCane", "SugarCane", "SugarCane", "Cassava", "AlfalfaGDD"], n_seasons=[2, 3, 4], off_season_p=0.75,
                              start_rel=["at", "at", "before"], end_kinds=["after", "eoy", "harvestish"], sensible_planting_p=0.9,
                              irr_methods=[1, 1, 2, 2, 5, 5, 3, 4, 0], events_per_year=0.3, leap_end_p=0.0))
    crop = case["spec"]["crop"]
    if crop["name"] != "AlfalfaGDD":
        m, d = [int(x) for x in crop["planting_date"].split("/")]
        h = _dt.date(2001, m, d) + _dt.timedelta(days=rng.choice([0, 0, 0, 0, -1, -2, -7]))
        crop["harvest_date"] = f"{h.month:02d}/{h.day:02d}"
        if case["spec"]["irr"]["method"] == 1:
            case["spec"]["irr"]["kwargs"]["SMT"] = [70, 70, 70, 70]
        # touching seasons exist only when the days between them are simulated
        case["spec"]["off_season"] = rng.random() < 0.85
    return case
