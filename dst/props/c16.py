"""C16 - every valid configuration runs to completion with finite outputs (kind C, exploration).

Catalogue sweep: the crop x soil pair is taken from a covering schedule over the run index
(so every crop meets every soil within 555 runs); every other dimension is drawn from the
PRNG with the option switches of the quantifier (leap-day dates, windows with no/partial
seasons, ETadj/PlantMethod/GDDmethod switches, bunds with the documented default height 0,
variable water tables, ...).  The invariant: no exception other than a permitted rejection,
every reported number finite (water-table depth exempt without a table), terminates.
"""
import numpy as np

from .common import config_sig
from ..gen import gen_spec
from ..domain import CROPS, SOILS, classify_exception
from ..node import Node, FLUX_COLS, GROWTH_COLS, FI
from ..engine import CaseTimeout

ID = "C16"
LEVEL = "exploration"
N = {"quick": 640, "thorough": 20000}
BUDGET_S = {"quick": 150, "thorough": 1500}
MINIMISE_BUDGET_S = 40
CASE_TIMEOUT_S = 40
RULE = ("catalogue sweep: run i uses crop i mod 37 and soil (i div 37) mod 15 (all 555 crop x soil pairs every 555 runs), the other "
        "dimensions (strategy 0-5, field options incl. bunds at the documented default height 0, groundwater none/constant/variable, "
        "initial-water kinds, CO2 options, off-season, option switches, leap-day and no/partial-season windows, weather with events) "
        "are PRNG-drawn; a run is non-trivial when it completed at least one simulated day (was not rejected at initialisation); "
        "distinct = distinct (crop, soil, strategy, option) signatures that ran")
STATE_MEASURE = "n/a (catalogue sweep; pair coverage reported instead)"
PROFILE = {"z_bund_choices": [0.0, 0.0, 0.05, 0.1, 0.2], "leap_end_p": 0.06, "crop_override_p": 0.5, "gw": 0.25,
           "end_kinds": ["after", "after", "mid", "eoy", "harvestish", "mid"], "start_rel": ["at", "before", "before", "after"],
           "sensible_planting_p": 0.6, "program_param_p": 0.0, "gw_jump_p": 0.6, "n_seasons": [1, 1, 2, 2, 3], "any_dz": True, "dz_p": 0.35, "custom_soil_p": 0.0, "switchgdd_p": 0.05, "co2_p": 0.3, "newyear_p": 0.2}


def gen_case(rng, tier, idx):
    prof = dict(PROFILE)
    prof["crops"] = [CROPS[idx % len(CROPS)]]
    prof["soils"] = [SOILS[(idx // len(CROPS)) % len(SOILS)]]
    spec = gen_spec(rng, prof)
    if rng.random() < 0.08:
        # a window that contains no planting date at all (quantifier: "windows containing no/partial seasons")
        from ..spec import parse_date, fmt_date
        import datetime as dt
        s = parse_date(spec["start"])
        m, d = [int(x) for x in spec["crop"]["planting_date"].split("/")]
        p = dt.date(s.year, m, d)
        a = p + dt.timedelta(days=rng.randint(1, 60))
        b = a + dt.timedelta(days=rng.randint(10, 200))
        if (b - a).days < 300:
            spec["start"], spec["end"] = fmt_date(a), fmt_date(b)
            from ..weather import make_weather
            spec["weather"] = make_weather(rng, a, b, archetype="temperate")
            if spec.get("gw"):
                spec["gw"] = {"water_table": "Y", "method": "Constant", "dates": [spec["start"].replace("/", "")], "values": [2.0]}
            if spec["irr"].get("schedule"):
                spec["irr"]["schedule"] = []
    return {"spec": spec, "mode": rng.choice(["till", "till", "steps"]), "k": rng.choice([1, 7, 50])}


def run_case(case):
    spec = case["spec"]
    res = {"status": "ok", "violations": [], "faults": {}, "probes": {}, "days": 0, "nontrivial": []}
    node = None
    try:
        node = Node(spec)
        if case.get("mode") == "steps":
            node.initialize()
            cap = len(node.clock.time_span) + 5
            calls = 0
            while not node.finished:
                node.step(case.get("k", 1))
                calls += 1
                if calls > cap:
                    res["violations"].append({"sig": "C16:does-not-terminate", "msg": f"not finished after {calls} calls", "where": {}})
                    break
        else:
            node.run_to_end()
        res["days"] = node.steps_done
        for ev in (spec.get("weather") or {}).get("events") or []:
            res["faults"]["event:" + ev["kind"]] = res["faults"].get("event:" + ev["kind"], 0) + 1
        res["faults"]["mode:" + str(case.get("mode"))] = 1
        t = node.tables()
        has_gw = spec.get("gw") is not None
        bad = []
        fl = t["flux"]
        for c, name in enumerate(FLUX_COLS):
            if name == "z_gw" and not has_gw:
                continue
            if not np.isfinite(fl[:, c]).all():
                bad.append(("flux", name, int(np.argmax(~np.isfinite(fl[:, c])))))
        if not np.isfinite(t["storage"]).all():
            bad.append(("storage", "th", int(np.argwhere(~np.isfinite(t["storage"]))[0][0])))
        gtab = t["growth"]
        for c, name in enumerate(GROWTH_COLS):
            if not np.isfinite(gtab[:, c]).all():
                bad.append(("growth", name, int(np.argmax(~np.isfinite(gtab[:, c])))))
        for row in t["final"] or []:
            for v in row:
                if isinstance(v, float) and not np.isfinite(v):
                    bad.append(("final", "row", row[0]))
        if bad:
            tab, col, r = bad[0]
            from ..domain import CROP_INFO
            if col == "FreshYield" and not CROP_INFO[spec["crop"]["name"]]["YldWC"]:
                col = "FreshYield:crop-without-YldWC"
            elif (spec["crop"].get("overrides") or {}).get("SwitchGDD") == 1:
                tab, col = "any", "SwitchGDD=1"
            res["violations"].append({"sig": f"C16:non-finite:{tab}:{col}", "msg": f"non-finite value in {tab}.{col} at row {r} (all: {bad[:5]})",
                                      "where": {"t": r if isinstance(r, int) else None}})
        if not t["finished"]:
            res["violations"].append({"sig": "C16:not-finished", "msg": "run returned but the model reports unfinished", "where": {}})
        res["nontrivial"] = [config_sig(spec)] if node.steps_done > 0 else []
        res["probes"]["pair:" + spec["crop"]["name"] + "|" + spec["soil"]["type"]] = 1
    except CaseTimeout:
        raise
    except Exception as e:  # noqa: BLE001
        kind, sig = classify_exception(e)
        if kind == "harness":
            raise
        res["days"] = node.steps_done if node is not None else 0
        if kind == "permitted":
            res["status"] = "rejected"
            res["reason"] = sig
        else:
            res["status"] = "crashed"
            res["violations"].append({"sig": "C16:crash:" + sig, "msg": f"{type(e).__name__}: {str(e)[:200]} (after {res['days']} simulated days)",
                                      "where": {"t": res["days"] if res["days"] else None}})
    return res


def on_timeout(case, res):
    tag = ":SwitchGDD=1" if (case["spec"]["crop"].get("overrides") or {}).get("SwitchGDD") == 1 else ""
    res["violations"].append({"sig": "C16:hang@" + str(res.get("timeout_at")) + tag, "msg": res["reason"], "where": {}})
    return res


def evidence_extra(done):
    pairs = set()
    for r in done:
        for k in r["res"]["probes"]:
            if k.startswith("pair:"):
                pairs.add(k)
    return {"crop_soil_pairs_completed": len(pairs), "crop_soil_pairs_total": len(CROPS) * len(SOILS)}
