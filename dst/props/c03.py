"""C03 - water content and ponding within physical limits (kind B, exploration)."""
from .common import std_case, std_run, reclamp_cn, hardpan_regime, HARDPAN_PROFILE, shallow_pond_regime, SHALLOW_POND_PROFILE, table_jump_regime, TABLE_JUMP_PROFILE, STATE_MEASURE  # noqa: F401
from ..monitors import mon_c03

ID = "C03"
LEVEL = "exploration"
N = {"quick": 128, "thorough": 6000}
BUDGET_S = {"quick": 150, "thorough": 1500}
RULE = ("seeded swarm biased to saturated starts, 300 mm storms on low-Ksat layered soils, multi-year droughts, water tables at "
        "0.2-1 m, bunds; bounds are checked per compartment per day against profile arrays copied at initialisation. Non-trivial "
        "run: some compartment reached saturation or air-dry, or water was ponded, on some day; distinct = distinct configuration signatures")
PROFILE = {"reactive_p": 0.3, "irr_methods": [0, 0, 1, 2, 3, 4, 4, 4, 5], "restrictive_p": 0.1, "sat_start_p": 0.35, "bunds": 0.4, "field_p": 0.6, "gw": 0.35, "gw_depths": [0.2, 0.3, 0.45, 0.75, 1.0, 1.5, 3.0],
           "custom_soil_p": 0.45, "event_kinds": ["storm", "storm", "drought", "drought", "heat_wave", "et0_spike", "wet_spell"],
           "events_per_year": 3.0, "n_seasons": [1, 2, 3, 4], "off_season_p": 0.6,
           "soils": ["Clay", "Paddy", "SiltClay", "Sand", "LoamySand", "SandyLoam", "Loam", "ac_TunisLocal", "SiltLoam"]}


CLAY = lambda rng: ["hyd", None, round(rng.uniform(0.25, 0.33), 3), round(rng.uniform(0.40, 0.52), 3), round(rng.uniform(0.53, 0.58), 3), rng.choice([2, 15, 35, 100]), 100]
SAND = lambda rng: ["hyd", None, round(rng.uniform(0.04, 0.08), 3), round(rng.uniform(0.11, 0.18), 3), round(rng.uniform(0.30, 0.38), 3), rng.choice([1200, 2200, 3000]), 100]
LOAM = lambda rng: ["hyd", None, round(rng.uniform(0.12, 0.16), 3), round(rng.uniform(0.28, 0.33), 3), round(rng.uniform(0.44, 0.48), 3), rng.choice([225, 500]), 100]


def gen_case(rng, tier, idx):
    if idx % 8 == 7:
        # a water table jumping between a shallow and a deep regime, with rain on the day it moves
        return table_jump_regime(rng, std_case(rng, dict(PROFILE, **TABLE_JUMP_PROFILE)))
    if idx % 4 == 3:
        # permeable top soil over a nearly impermeable porous pan, frequent rain: water backs up towards the surface
        return hardpan_regime(rng, std_case(rng, dict(PROFILE, **HARDPAN_PROFILE)))
    if idx % 8 == 5:
        # a series of storms each leaving a pond of a few millimetres behind empty bunds under a stressed canopy
        return shallow_pond_regime(rng, std_case(rng, dict(PROFILE, **SHALLOW_POND_PROFILE)))
    case = std_case(rng, PROFILE)
    if idx % 4 == 1:
        # basin irrigation: high in-season bunds kept ponded (constant depth / interval irrigation, initial ponding), lower or
        # no bunds in the fallow period, off-season simulated, slowly draining uniform soils, dry weather around harvest
        spec = case["spec"]
        spec["off_season"] = True
        if rng.random() < 0.5:
            # puddled uniform clay: intake of a few mm/day only, so that the basin really stays flooded
            wp = round(rng.uniform(0.25, 0.33), 3)
            fc = round(wp + rng.uniform(0.1, 0.15), 3)
            spec["soil"] = {"type": "custom", "kwargs": {"dz": [0.1] * 12, "cn": 77, "rew": 10},
                            "layers": [["hyd", 3.2, wp, fc, round(fc + rng.uniform(0.03, 0.08), 3), rng.choice([2, 5, 10]), 100]]}
            spec["iwc"] = {"wc_type": "Prop", "method": "Layer", "depth_layer": [1], "value": [rng.choice(["FC", "SAT"])]}
        elif spec["soil"]["type"] not in ("Clay", "SiltClay", "SandyClay", "Paddy"):
            spec["soil"] = {"type": rng.choice(["Clay", "SiltClay", "SandyClay", "Clay"]), "kwargs": {}, "layers": None}
            spec["iwc"] = {"wc_type": "Prop", "method": "Layer", "depth_layer": [1], "value": [rng.choice(["FC", "SAT"])]}
        spec["gw"] = None
        spec["field"] = {"bunds": True, "z_bund": rng.choice([0.15, 0.2, 0.3]), "bund_water": rng.choice([0, 50, 100])}
        spec["fallow_field"] = rng.choice([{"bunds": True, "z_bund": rng.choice([0.02, 0.05, 0.1])}, {"bunds": True, "z_bund": 0.05, "bund_water": 20}, None])
        m = rng.choice([5, 5, 2])
        spec["irr"] = {"method": m, "kwargs": ({"depth": rng.choice([10, 20, 30]), "MaxIrr": 40} if m == 5 else {"IrrInterval": 3, "MaxIrr": 60}), "schedule": None}
        case["controller"] = None
        w = spec["weather"]
        w["events"] = [e for e in w.get("events", []) if e["kind"] not in ("storm", "wet_spell")]
        from ..gen import season_spans
        from ..spec import parse_date
        off = (parse_date(spec["start"]) - parse_date(w["start"])).days
        for a, b in season_spans(spec):
            w["events"].append({"kind": "drought", "day": off + b - 20, "len": 60, "mag": 0.0})
    if idx % 4 == 2:
        # strongly contrasting layers (clay/sand/loam in PRNG order) with a shallow first layer, and strategies that write
        # water contents computed from layer properties (net irrigation with pre-irrigation, threshold irrigation)
        spec = case["spec"]
        dz = list(rng.choice([[0.1] * 12, [0.05] * 4 + [0.1] * 10, [0.1, 0.1, 0.1, 0.15, 0.15, 0.2, 0.2, 0.2]]))
        kinds = rng.sample([CLAY, SAND, LOAM], rng.choice([2, 2, 3]))
        first = rng.choice([0.1, 0.2, 0.3, 0.4, 0.5])
        layers = []
        for i, k in enumerate(kinds):
            lay = k(rng)
            lay[1] = first if i == 0 else (rng.choice([0.3, 0.5]) if i < len(kinds) - 1 else 3.0)
            layers.append(lay)
        spec["soil"] = {"type": "custom", "kwargs": {"dz": dz, "cn": rng.choice([46, 61, 77]), "rew": 9}, "layers": layers}
        spec["iwc"] = {"wc_type": "Pct", "method": "Layer", "depth_layer": list(range(1, len(layers) + 1)),
                       "value": [rng.choice([10, 40, 70, 100]) for _ in layers]}
        m = rng.choice([4, 4, 4, 1, 0])
        spec["irr"] = {"method": m, "kwargs": ({"NetIrrSMT": rng.choice([50, 70, 90, 100])} if m == 4 else ({"SMT": [rng.choice([50, 70, 90])] * 4} if m == 1 else {})), "schedule": None}
        spec["gw"] = None
        case["controller"] = None
    reclamp_cn(case["spec"])
    return case


def _nontrivial(res):
    p = res["probes"]
    return any(p.get(k, 0) > 0 for k in ("saturated_compartment_day", "air_dry_compartment_day", "ponded_day"))


def run_case(case):
    return std_run(case, [mon_c03], probes=("days",), nontrivial_fn=_nontrivial)
