"""C03 - water content and ponding within physical limits (kind B, exploration)."""
from .common import std_case, std_run, STATE_MEASURE  # noqa: F401
from ..monitors import mon_c03

ID = "C03"
LEVEL = "exploration"
N = {"quick": 128, "thorough": 6000}
BUDGET_S = {"quick": 150, "thorough": 1500}
RULE = ("seeded swarm biased to saturated starts, 300 mm storms on low-Ksat layered soils, multi-year droughts, water tables at "
        "0.2-1 m, bunds; bounds are checked per compartment per day against profile arrays copied at initialisation. Non-trivial "
        "run: some compartment reached saturation or air-dry, or water was ponded, on some day; distinct = distinct configuration signatures")
PROFILE = {"sat_start_p": 0.35, "bunds": 0.4, "field_p": 0.6, "gw": 0.35, "gw_depths": [0.2, 0.3, 0.45, 0.75, 1.0, 1.5, 3.0],
           "custom_soil_p": 0.35, "event_kinds": ["storm", "storm", "drought", "drought", "heat_wave", "et0_spike", "wet_spell"],
           "events_per_year": 3.0, "n_seasons": [1, 2, 3, 4], "off_season_p": 0.6,
           "soils": ["Clay", "Paddy", "SiltClay", "Sand", "LoamySand", "SandyLoam", "Loam", "ac_TunisLocal", "SiltLoam"]}


def gen_case(rng, tier, idx):
    return std_case(rng, PROFILE)


def _nontrivial(res):
    p = res["probes"]
    return any(p.get(k, 0) > 0 for k in ("saturated_compartment_day", "air_dry_compartment_day", "ponded_day"))


def run_case(case):
    return std_run(case, [mon_c03], probes=("days",), nontrivial_fn=_nontrivial)
