"""C06 - yields and seasonal totals agree with the daily tables (kind B, history check)."""
from .common import year_long_case, std_case, std_run, STATE_MEASURE  # noqa: F401
from ..monitors import mon_c06, final_c06

ID = "C06"
LEVEL = "exploration"
N = {"quick": 128, "thorough": 6000}
BUDGET_S = {"quick": 150, "thorough": 1500}
RULE = ("seeded swarm with every irrigation strategy (net irrigation with pre-irrigation, binding seasonal caps), droughts/cold snaps to "
        "provoke crop death and early season ends, 1-4 seasons, off-season on/off; per in-season day the biomass gain and the three "
        "yield identities are recomputed from the row, the delivered ET0 and the season's crop parameters; after the run the seasonal "
        "summary is compared row by row with the harvest days the world observed (exactly-once, order, values, irrigation total). "
        "Non-trivial run: at least one season reached harvest; distinct = distinct configuration signatures")
PROFILE = {"reactive_p": 0.3, "irr_methods": [0, 1, 2, 3, 4, 4, 5], "season_cap_p": 0.5, "n_seasons": [1, 2, 2, 3, 4],
           "event_kinds": ["drought", "drought", "cold_snap", "heat_wave", "storm", "et0_spike"], "events_per_year": 2.0,
           "end_kinds": ["after", "after", "mid", "harvestish", "eoy"], "off_season_p": 0.4}


def gen_case(rng, tier, idx):
    if idx % 8 == 5:
        # year-long seasons that touch (harvest date = next planting date): seasonal totals and counters across the boundary
        return year_long_case(rng, PROFILE)
    if idx % 4 == 2:
        # crops whose water productivity changes during yield formation (WPy < 100) and indeterminate crops, sown into a dry
        # seed bed (delayed germination) or put through a dry spell and re-watering, so that the development clock that times
        # the productivity switch runs apart from the calendar
        from ..domain import WPY_CROPS, INDETERMINATE_CROPS
        prof = dict(PROFILE, crops=WPY_CROPS + INDETERMINATE_CROPS, iwc_kinds=["Prop", "Pct"], sat_start_p=0.0, gw=0.0, irr_methods=[0, 0, 1, 3],
                    event_kinds=["dry_then_wet", "dry_then_wet", "drought", "wet_spell"], events_per_year=3.0, sensible_planting_p=0.9,
                    custom_soil_p=0.0)
        case = std_case(rng, prof)
        iwc = case["spec"]["iwc"]
        if rng.random() < 0.7:
            if iwc["wc_type"] == "Prop":
                iwc["value"] = ["WP" for _ in iwc["value"]]
            else:
                iwc["value"] = [rng.choice([0, 5, 10]) for _ in iwc["value"]]
        return case
    return std_case(rng, PROFILE)


def _final(ctx, node, spec):
    return final_c06(ctx, node.tables())


def _nontrivial(res):
    return res["days"] > 0 and bool((res.get("ctx").state.get("c06") or {}).get("harvest"))


def run_case(case):
    return std_run(case, [mon_c06], probes=("days",), nontrivial_fn=_nontrivial, final_fn=_final)
