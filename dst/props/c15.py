"""C15 - weather is bound by date and by column name (kind C, exploration).

Twin nodes: the reference gets the canonical weather frame, the candidate a frame put
through a PRNG-ordered *sequence* of benign transport transformations (F7).  The sequence
is what the minimiser shrinks.  All tables must be bitwise equal.
"""
import itertools

import numpy as np
import pandas as pd

from .common import config_sig
from ..gen import gen_spec
from ..node import Node, diff_tables
from ..spec import Objects, weather_frame
from ..domain import classify_exception
from ..engine import CaseTimeout

ID = "C15"
LEVEL = "exploration"
N = {"quick": 160, "thorough": 6000}
BUDGET_S = {"quick": 150, "thorough": 1500}
RULE = ("twin runs per bundle: canonical weather frame vs the same records after a sequence of 1-6 transformations drawn from "
        "{column permutation, extra unrelated columns, index replaced by shuffled ints / strings / dates / offset ints / labels that repeat (day of year, yearly restart, constant), extra "
        "leading rows, extra trailing rows}; all crop types incl. thermal-time crops (whose season-start code reads the date column). "
        "Run index i uses column permutation i mod 120 when a permutation is drawn, so all 120 orders appear within a thorough run. "
        "Non-trivial: the transformation sequence changes the column order or the row offset; distinct = distinct (configuration "
        "signature, transformation sequence)")
COLS = ["MinTemp", "MaxTemp", "Precipitation", "ReferenceET", "Date"]
PERMS = list(itertools.permutations(range(5)))
PROFILE = {"calendar_crop_p": 0.5, "n_seasons": [1, 1, 2], "events_per_year": 1.0, "field_p": 0.2, "gw": 0.1}


def gen_case(rng, tier, idx):
    spec = gen_spec(rng, PROFILE)
    k = rng.choice([1, 1, 2, 3, 4, 6])
    tr = []
    for j in range(k):
        kind = rng.choice(["permute", "permute", "extra_cols", "reindex", "pad_front", "pad_back"])
        if kind == "permute":
            p = PERMS[idx % 120] if j == 0 else rng.choice(PERMS)
            tr.append({"op": "permute", "order": list(p)})
        elif kind == "extra_cols":
            tr.append({"op": "extra_cols", "names": rng.sample(["Wind", "Rad", "Station", "Tdew", "Year", "Day"], rng.randint(1, 3)),
                       "pos": rng.choice(["front", "back", "mixed"]), "seed": rng.getrandbits(16), "gaps": rng.random() < 0.5})
        elif kind == "reindex":
            tr.append({"op": "reindex", "kind": rng.choice(["shuffled", "strings", "dates", "dates", "dates_near", "dates_near", "offset", "reversed_ints", "day_of_year", "per_year", "constant"]), "seed": rng.getrandbits(16)})
        elif kind == "pad_front":
            tr.append({"op": "pad_front", "n": rng.choice([1, 7, 365, 800]), "seed": rng.getrandbits(16)})
        else:
            tr.append({"op": "pad_back", "n": rng.choice([1, 7, 365, 800]), "seed": rng.getrandbits(16)})
    return {"spec": spec, "transforms": tr}


def _garbage(n, seed):
    g = np.random.Generator(np.random.PCG64(seed))
    return {"MinTemp": np.round(g.uniform(-40, 10, n), 1), "MaxTemp": np.round(g.uniform(20, 60, n), 1),
            "Precipitation": np.round(g.uniform(0, 500, n), 1), "ReferenceET": np.round(g.uniform(0.1, 30, n), 2)}


def apply_transforms(df, transforms):
    df = df.copy()
    for t in transforms:
        op = t["op"]
        if op == "permute":
            base = [c for c in df.columns if c in COLS]
            others = [c for c in df.columns if c not in COLS]
            new = [COLS[i] for i in t["order"]]
            # keep extra columns where they are relative to the front
            df = df[new + others]
        elif op == "extra_cols":
            g = np.random.Generator(np.random.PCG64(t["seed"]))
            for j, name in enumerate(t["names"]):
                if name in df.columns:
                    continue
                vals = g.uniform(-5, 5, len(df)) if name != "Station" else np.array(["st%d" % (i % 3) for i in range(len(df))], dtype=object)
                if t.get("gaps") and name != "Station":
                    # an unrelated measurement column with missing values (sparse sensor record)
                    vals = np.where(g.random(len(df)) < 0.15, np.nan, vals)
                where = t["pos"]
                loc = 0 if where == "front" else (len(df.columns) if where == "back" else int(g.integers(0, len(df.columns) + 1)))
                df.insert(loc, name, vals)
        elif op == "reindex":
            n = len(df)
            g = np.random.Generator(np.random.PCG64(t["seed"]))
            if t["kind"] == "shuffled":
                df.index = pd.Index(g.permutation(n))
            elif t["kind"] == "strings":
                df.index = pd.Index(["r%05d" % i for i in g.permutation(n)])
            elif t["kind"] == "dates":
                df.index = pd.DatetimeIndex(df["Date"].values) + pd.Timedelta(days=int(g.integers(-500, 500)))
            elif t["kind"] == "dates_near":
                # time stamps a few days off the Date column (logged the evening before, or on arrival of the record)
                df.index = pd.DatetimeIndex(df["Date"].values) + pd.Timedelta(days=int(g.choice([-3, -1, -1, 1, 2])))
            elif t["kind"] == "offset":
                df.index = pd.RangeIndex(start=int(g.integers(1, 10000)), stop=None, step=1)[:0].append(pd.Index(np.arange(n) + int(g.integers(1, 10000))))
            elif t["kind"] == "day_of_year":
                # labels recur every year (duplicate labels are legal in a pandas index)
                df.index = pd.Index(pd.DatetimeIndex(df["Date"].values).dayofyear)
            elif t["kind"] == "per_year":
                # yearly tables concatenated without renumbering: the counter restarts every 1 January
                d = pd.DatetimeIndex(df["Date"].values)
                df.index = pd.Index(np.asarray(d.dayofyear) - 1 + int(g.integers(0, 3)))
            elif t["kind"] == "constant":
                df.index = pd.Index(np.zeros(n, dtype=int))
            else:
                df.index = pd.Index(np.arange(n)[::-1])
        elif op in ("pad_front", "pad_back"):
            n = t["n"]
            gb = _garbage(n, t["seed"])
            if op == "pad_front":
                d0 = df["Date"].iloc[0]
                dates = pd.date_range(end=d0 - pd.Timedelta(days=1), periods=n, freq="D")
            else:
                d1 = df["Date"].iloc[-1]
                dates = pd.date_range(start=d1 + pd.Timedelta(days=1), periods=n, freq="D")
            extra = pd.DataFrame({c: (gb[c] if c in gb else (dates if c == "Date" else (np.array(["pad"] * n, dtype=object) if df[c].dtype == object else np.zeros(n))))
                                  for c in df.columns})
            extra["Date"] = dates
            extra = extra[list(df.columns)]
            df = pd.concat([extra, df] if op == "pad_front" else [df, extra], ignore_index=(df.index.dtype.kind in "iu" and df.index.is_monotonic_increasing and df.index[0] == 0))
            if not df.index.is_unique and not t.get("keep_dups", True):
                df.index = pd.RangeIndex(len(df))
    return df


def run_case(case):
    spec = case["spec"]
    res = {"status": "ok", "violations": [], "faults": {}, "probes": {}, "days": 0, "nontrivial": [], "evals": 1}
    try:
        ref = Node(spec)
        ref.run_to_end()
        tr = ref.tables()
        res["days"] += ref.steps_done
    except CaseTimeout:
        raise
    except Exception as e:  # noqa: BLE001
        kind, sig = classify_exception(e)
        if kind == "harness":
            raise
        res["status"] = "rejected" if kind == "permitted" else "aborted"
        res["reason"] = sig
        return res
    df = apply_transforms(weather_frame(spec["weather"]), case["transforms"])
    for t in case["transforms"]:
        res["faults"]["transform:" + t["op"] + (":" + t["kind"] if "kind" in t else "")] = res["faults"].get("transform:" + t["op"] + (":" + t["kind"] if "kind" in t else ""), 0) + 1
    label = "+".join(t["op"] + (":" + t.get("kind", "") if t["op"] == "reindex" else "") for t in case["transforms"])
    try:
        cand = Node(spec, objs=Objects(spec, weather_df=df))
        cand.run_to_end()
        res["days"] += cand.steps_done
        d = diff_tables(tr, cand.tables())
        if d is not None:
            kinds = sorted(set(t["op"] for t in case["transforms"]))
            res["violations"].append({"sig": "C15:tables-differ", "msg": f"weather frame after [{label}] (columns {list(df.columns)}): {d}", "where": {}})
    except CaseTimeout:
        raise
    except Exception as e:  # noqa: BLE001
        kind, sig = classify_exception(e)
        if kind == "harness":
            raise
        kinds = sorted(set(t["op"] for t in case["transforms"]))
        res["violations"].append({"sig": "C15:raises",
                                  "msg": f"weather frame after [{label}] (columns {list(df.columns)}) raises {type(e).__name__}: {str(e)[:160]} while the canonical frame runs", "where": {}})
    res["nontrivial"] = [config_sig(spec) + "#" + label + ":" + ",".join(str(t.get("order", t.get("n", ""))) for t in case["transforms"])]
    return res


def simplifiers(case, violation=None):
    import copy
    tr = case["transforms"]
    if len(tr) > 1:
        for i in range(len(tr)):
            c = copy.deepcopy(case)
            del c["transforms"][i]
            yield c
    for i, t in enumerate(tr):
        if t["op"] == "permute" and t["order"] != [0, 1, 2, 3, 4]:
            # simpler permutation: a single transposition
            for a, b in ((0, 1), (2, 3), (3, 4), (0, 4)):
                o = [0, 1, 2, 3, 4]
                o[a], o[b] = o[b], o[a]
                if o != t["order"]:
                    c = copy.deepcopy(case)
                    c["transforms"][i]["order"] = o
                    yield c
        if t["op"] in ("pad_front", "pad_back") and t["n"] > 1:
            c = copy.deepcopy(case)
            c["transforms"][i]["n"] = 1
            yield c
    from ..minimize import spec_simplifiers
    yield from spec_simplifiers(case, violation)
