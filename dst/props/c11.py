"""C11 - inputs are not consumed by a run (kind A; fault enumeration (bounded) + exploration).

One bundle, one set of durable user objects, a history of uses: full runs on new models,
re-runs of the same model, partial runs that are abandoned (F1), crashes injected inside a
step at a chosen process call (F2), restarts on the same model or on a new model built from
the same objects (F3).  After every completed run the tables must equal the first completed
run's and those of the same spec built from fresh objects, and no call may raise.
"""
import random

from .common import config_sig
from ..gen import gen_spec
from ..node import Node, SimCrash, diff_tables
from ..spec import Objects, clone, parse_date, fmt_date
from ..domain import classify_exception
from ..engine import CaseTimeout

ID = "C11"
LEVEL = "fault_enumeration"
N = {"quick": 128, "thorough": 3000}
BUDGET_S = {"quick": 150, "thorough": 1500}
RULE = ("each case = one bundle spec (biased to dated schedules, crops deeper than the default 1.2 m profile, thermal-time crops, "
        "SwitchGDD, CO2 options, custom soils) + an explicit history of 3-8 uses of the same durable objects drawn from {full run on "
        "a new model, re-run of the same model, partial run then abandon, crash inside step t at process call i, restart}; for "
        "windows <= 14 days every abandon point t and every (t, i) crash point is enumerated (fault enumeration), otherwise points "
        "are sampled with bias to day 0, planting, harvest and the last day. evaluations = completed runs compared; non-trivial = "
        "the completed run was preceded by at least one earlier use of the same objects; distinct = distinct (configuration "
        "signature, history prefix)")
ASSUMPTIONS = ["after an abandon or injected crash only the *restarted* run is compared (the abandoned one is dropped)"]
PROFILE = {"irr_methods": [0, 1, 2, 3, 3, 3, 4, 5], "calendar_crop_p": 0.5, "custom_soil_p": 0.4, "co2_p": 0.4, "n_seasons": [1, 1, 2],
           "switchgdd_p": 0.1, "events_per_year": 1.0, "gw": 0.35, "field_p": 0.3, "end_kinds": ["after", "after", "eoy"]}


def gen_case(rng, tier, idx):
    prof = dict(PROFILE)
    if idx % 6 != 5:
        prof["weather_extra_after"] = 1480   # room for uses with a shifted window (a shift by four years keeps the leap days in place)
        prof["weather_extra_before"] = 1480
    spec = gen_spec(rng, prof)
    from ..domain import CROP_INFO as _CI
    thermal = _CI[spec["crop"]["name"]]["CalendarType"] == 2
    if thermal and rng.random() < 0.7:
        # thermal-time crop with the latest harvest date stated by the user (the derived one is written onto the user's Crop -
        # a recorded finding - and would otherwise stand in front of every other difference after a use for another window)
        import datetime as _dt
        m, d = [int(x) for x in spec["crop"]["planting_date"].split("/")]
        h = _dt.date(2001, m, d) + _dt.timedelta(days=_CI[spec["crop"]["name"]]["MaturityCD"] + rng.choice([45, 80, 120]))
        if h.year == 2001 or parse_date(spec["end"]).year > parse_date(spec["start"]).year + (1 if spec["crop"]["planting_date"] < spec["start"][5:] else 0):
            # (a season that crosses New Year in a window that does not is a window without a season: recorded C16 finding)
            spec["crop"]["harvest_date"] = f"{h.month:02d}/{h.day:02d}"
    enum = (idx % 6 == 5)
    if enum:
        # short window so that every fault point can be enumerated
        import datetime as dt
        from ..gen import planting_dates
        pl = planting_dates(spec)
        s = parse_date(spec["start"])
        if pl:
            s = max(s, pl[0] - dt.timedelta(days=rng.randint(0, 3)))
        n = rng.randint(6, 14)
        spec["start"], spec["end"] = fmt_date(s), fmt_date(s + dt.timedelta(days=n))
        if parse_date(spec["weather"]["start"]) > s:
            spec["weather"]["start"] = fmt_date(s)
        return {"spec": spec, "enumerate": True, "history": []}
    n = (parse_date(spec["end"]) - parse_date(spec["start"])).days
    hist = []
    for _ in range(rng.randint(3, 8)):
        r = rng.random()
        model = rng.choice(["new", "same"])
        t = rng.choice([0, 0, 1, rng.randrange(max(1, n)), max(0, n - 2)])
        other = None
        if rng.random() < 0.3:
            # a use of the same objects for ANOTHER simulation window (shifted by whole years inside the weather table)
            other = rng.choice([-4, -2, -1, 1, 2, 4])
        if r < 0.45:
            hist.append({"op": "run", "model": model, "how": rng.choice(["till", "till", "steps"]), "shift_years": other})
        elif r < 0.75:
            hist.append({"op": "abandon", "model": "new" if other else model, "steps": t + 1, "shift_years": other})
        else:
            hist.append({"op": "crash", "model": model, "t": t, "pidx": rng.randrange(18)})
    if rng.random() < (0.7 if thermal else 0.3):
        # the very first use of the objects is for another window: whatever the first initialisation leaves on them comes from there
        y = rng.choice([-4, -2, -1, 1, 2, 4])
        hist.insert(0, rng.choice([{"op": "run", "model": "new", "how": "till", "shift_years": y},
                                   {"op": "abandon", "model": "new", "steps": rng.choice([1, 5, 60]), "shift_years": y}]))
    hist.append({"op": "run", "model": rng.choice(["new", "same"]), "how": "till"})
    return {"spec": spec, "enumerate": False, "history": hist}


def _complete(node, how, k=37):
    if how == "steps":
        node.initialize()
        while not node.finished:
            node.step(k)
    else:
        node.run_to_end()
    return node.tables()


def run_case(case):
    spec = case["spec"]
    res = {"status": "ok", "violations": [], "faults": {}, "probes": {}, "days": 0, "nontrivial": [], "evals": 0}

    swg = ":SwitchGDD=1" if (spec["crop"].get("overrides") or {}).get("SwitchGDD") == 1 else ""

    from ..domain import CROP_INFO
    thermal_derived = CROP_INFO[spec["crop"]["name"]]["CalendarType"] == 2 and not spec["crop"].get("harvest_date")

    def V(sig, msg):
        if swg and (sig.startswith("C11:differs") or (sig.startswith("C11:raises-on-reuse:AssertionError") and any("@window" in t for t in state["trace"]))):
            # the calendar-to-thermal conversion is written onto the user's Crop (see known findings); with another window's thermal
            # stage lengths on it the crop may also fail the documented degree-day check of this window
            sig += swg
        elif thermal_derived and (sig.startswith("C11:differs") or sig.startswith("C11:raises-on-reuse:AssertionError")) and any("@window" in t for t in state["trace"]):
            # thermal-time crop, harvest date derived by the model, and an earlier use of the same Crop for another window
            sig += ":thermal-crop-derived-harvest-date-from-other-window"
        if not any(v["sig"] == sig for v in res["violations"]):
            res["violations"].append({"sig": sig, "msg": msg, "where": {}})

    def fault(k):
        res["faults"][k] = res["faults"].get(k, 0) + 1

    # reference (b): fresh objects
    try:
        fresh = Node(spec)
        t_fresh = _complete(fresh, "till")
        res["days"] += fresh.steps_done
        n_steps = fresh.steps_done
    except CaseTimeout:
        raise
    except Exception as e:  # noqa: BLE001
        kind, sig = classify_exception(e)
        if kind == "harness":
            raise
        res["status"] = "rejected" if kind == "permitted" else "aborted"
        res["reason"] = sig
        return res

    objs = Objects(spec)
    csig = config_sig(spec)
    state = {"node": None, "first": None, "uses": 0, "trace": []}

    def shifted_window(years):
        """same month/day, other years; None when the weather table does not cover it"""
        import datetime as dt
        from ..spec import weather_end
        s0, e0 = parse_date(spec["start"]), parse_date(spec["end"])
        try:
            s1, e1 = s0.replace(year=s0.year + years), e0.replace(year=e0.year + years)
        except ValueError:
            return None
        if s1 < parse_date(spec["weather"]["start"]) or e1 > weather_end(spec["weather"]):
            return None
        return fmt_date(s1), fmt_date(e1)

    def get_node(which, window=None):
        if window is not None:
            fault("new_model_same_objects_other_window")
            return Node(spec, objs=objs, start=window[0], end=window[1])
        if which == "same" and state["node"] is not None:
            fault("reuse_same_model")
            return state["node"]
        fault("new_model_same_objects")
        n = Node(spec, objs=objs)
        state["node"] = n
        return n

    def other_window_use(op):
        """a use of the same objects for another window: complete or abandoned; never compared, only must not raise anything unclassified"""
        win = shifted_window(op["shift_years"])
        if win is None:
            return False
        try:
            node = get_node("new", window=win)
            if op["op"] == "run":
                node.run_to_end()
            else:
                node.initialize()
                k = 0
                while k < op["steps"] and not node.finished:
                    node.step(1)
                    k += 1
            res["days"] += node.steps_done
        except CaseTimeout:
            raise
        except Exception as e:  # noqa: BLE001
            kind, sig = classify_exception(e)
            if kind == "harness":
                raise
            # the other window may legitimately be rejected (e.g. too few degree days) or hit a C16 finding: it still was a use
        state["uses"] += 1
        state["trace"].append(f"{op['op']}@window{op['shift_years']:+d}y")
        return True

    def completed(label, how, which):
        try:
            node = get_node(which)
            node.crash_at = None
            t = _complete(node, how)
            res["days"] += node.steps_done
        except CaseTimeout:
            raise
        except Exception as e:  # noqa: BLE001
            kind, sig = classify_exception(e)
            if kind == "harness":
                raise
            V("C11:raises-on-reuse:" + sig.split(":")[0], f"use #{state['uses'] + 1} ({label}) after history {state['trace']} raises {type(e).__name__}: {str(e)[:160]} [{sig}]")
            state["node"] = None
            return False
        res["evals"] += 1
        if state["uses"] > 0:
            res["nontrivial"].append(csig + "#" + ">".join(state["trace"][-4:]) + ">" + label)
        d = diff_tables(t_fresh, t, strict_types=True)
        if d is not None:
            V("C11:differs-from-fresh-objects", f"use #{state['uses'] + 1} ({label}) after history {state['trace']}: {d}")
        if state["first"] is None:
            state["first"] = t
        else:
            d = diff_tables(state["first"], t, strict_types=True)
            if d is not None:
                V("C11:differs-from-first-run", f"use #{state['uses'] + 1} ({label}) after history {state['trace']}: {d}")
        state["uses"] += 1
        state["trace"].append(label)
        return True

    def abandon(which, steps):
        try:
            node = get_node(which)
            node.crash_at = None
            node.initialize()
            k = 0
            while k < steps and not node.finished:
                node.step(1)
                k += 1
            res["days"] += k
            fault("abandon")
            if node.clock.season_counter >= 0:
                fault("abandon_in_season")
        except CaseTimeout:
            raise
        except Exception as e:  # noqa: BLE001
            kind, sig = classify_exception(e)
            if kind == "harness":
                raise
            V("C11:raises-on-reuse:" + sig.split(":")[0], f"partial run (use #{state['uses'] + 1}) after history {state['trace']} raises {type(e).__name__}: {str(e)[:160]} [{sig}]")
            state["node"] = None
            return
        state["uses"] += 1
        state["trace"].append(f"abandon@{steps}")

    def crash(which, t, pidx):
        try:
            node = get_node(which)
            node.initialize()
            node.crash_at = (t, pidx)
            try:
                while not node.finished:
                    node.step(1)
                node.crash_at = None
                fault("crash_point_not_reached")
            except SimCrash:
                fault("crash_in_step")
            res["days"] += node.steps_done
        except CaseTimeout:
            raise
        except Exception as e:  # noqa: BLE001
            kind, sig = classify_exception(e)
            if kind == "harness":
                raise
            V("C11:raises-on-reuse:" + sig.split(":")[0], f"run with injected crash (use #{state['uses'] + 1}) after history {state['trace']} raises {type(e).__name__}: {str(e)[:160]} [{sig}]")
            state["node"] = None
            return
        state["uses"] += 1
        state["trace"].append(f"crash@{t}.{pidx}")

    if case.get("enumerate"):
        res["probes"]["enumerated_windows"] = 1
        completed("run", "till", "new")
        for t in range(n_steps):
            abandon("new" if t % 2 else "same", t + 1)
            completed("run", "till", "same" if t % 2 else "new")
            res["probes"]["abandon_points_enumerated"] = res["probes"].get("abandon_points_enumerated", 0) + 1
            if res["violations"]:
                break
        if not res["violations"]:
            for t in range(n_steps):
                for pidx in range(0, 20):
                    before = res["faults"].get("crash_in_step", 0)
                    crash("same" if (t + pidx) % 2 else "new", t, pidx)
                    if res["faults"].get("crash_in_step", 0) == before:
                        break  # fewer process calls than pidx on this day
                    completed("run", "till", "same" if pidx % 2 else "new")
                    res["probes"]["crash_points_enumerated"] = res["probes"].get("crash_points_enumerated", 0) + 1
                if res["violations"]:
                    break
    else:
        for op in case["history"]:
            if op.get("shift_years") and op["op"] in ("run", "abandon"):
                if other_window_use(op):
                    continue
            if op["op"] == "run":
                completed("run:" + op.get("how", "till") + ":" + op["model"], op.get("how", "till"), op["model"])
            elif op["op"] == "abandon":
                abandon(op["model"], op["steps"])
            else:
                crash(op["model"], op["t"], op["pidx"])
    return res


def simplifiers(case, violation=None):
    import copy
    h = case.get("history") or []
    if len(h) > 1:
        for i in range(len(h) - 1):
            c = copy.deepcopy(case)
            del c["history"][i]
            yield c
    if case.get("enumerate"):
        c = copy.deepcopy(case)
        c["enumerate"] = False
        c["history"] = [{"op": "run", "model": "new", "how": "till"}, {"op": "run", "model": "new", "how": "till"}]
        yield c
    from ..minimize import spec_simplifiers
    yield from spec_simplifiers(case, violation)
