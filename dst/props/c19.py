"""C19 - shallow groundwater behaves consistently (kind B, exploration)."""
import numpy as np

from .common import table_jump_regime, TABLE_JUMP_PROFILE, std_case, std_run, config_sig, STATE_MEASURE  # noqa: F401
from ..monitors import mon_c19
from ..node import Node, diff_tables, FI
from ..spec import clone
from ..domain import classify_exception
from ..engine import CaseTimeout

ID = "C19"
LEVEL = "exploration"
N = {"quick": 160, "thorough": 6000}
BUDGET_S = {"quick": 150, "thorough": 1500}
RULE = ("seeded swarm in which every bundle has a water table (constant, multi-date constant, or linearly varying; depths from inside "
        "the profile to tens of metres, incl. compartment mid-depths +/- epsilon), layered soils, every strategy; per day: bounds of "
        "the adjusted field capacity captured at the groundwater-check seam, saturation below the table at the end of the day, "
        "capillary rise never above adjusted field capacity (per-process ledger), table depth against an independent series model; "
        "twin modes: no table => CR = GwIn = 0; a table at 50 m => all tables equal to the no-table twin except z_gw. Non-trivial "
        "run: capillary rise or groundwater inflow occurred, or the table was inside the profile; distinct = distinct configuration signatures")
PROFILE = {"reactive_p": 0.3, "gw": 1.0, "gw_depths": [0.15, 0.2, 0.25, 0.3, 0.45, 0.55, 0.75, 0.95, 1.0, 1.05, 1.15, 1.2, 1.5, 2.0, 2.5, 3.5, 6.0, 15.0],
           "custom_soil_p": 0.3, "irr_methods": [0, 1, 2, 3, 4, 5], "events_per_year": 1.5, "n_seasons": [1, 1, 2], "off_season_p": 0.6}


def gen_case(rng, tier, idx):
    mode = rng.choice(["table"] * 6 + ["none", "far"])
    prof = dict(PROFILE)
    if mode != "table":
        prof["gw"] = 0.0
    if idx % 4 == 1:
        # layered custom soils (often the same material at two bulk densities) with the table inside or just below the profile
        mode = "table"
        prof.update({"gw": 1.0, "custom_soil_p": 1.0, "same_fc_layers_p": 0.7, "n_layers_choices": [2, 2, 3], "hyd_layer_p": 0.8, "gw_depths": [0.3, 0.45, 0.55, 0.75, 0.95, 1.05, 1.2, 1.5, 2.0]})
    case = std_case(rng, prof)
    if idx % 4 == 3:
        # the table jumps between a shallow and a deep regime inside the growing seasons, with rain on the day of the move
        mode = "table"
        case = table_jump_regime(rng, std_case(rng, dict(PROFILE, **TABLE_JUMP_PROFILE)))
    case["mode"] = mode
    iwc = case["spec"]["iwc"]
    if mode == "far" and iwc["wc_type"] == "Prop" and "FC" in iwc["value"]:
        # with a water table the model documents a different initialisation path for 'FC' (the initial content follows
        # the table-adjusted field capacity, rounded to 3 decimals); that path differs from the no-table one by rounding,
        # so the twin comparison uses an initial-water specification that both runs read the same way
        iwc["wc_type"] = "Pct"
        iwc["value"] = [{"FC": 100, "WP": 0, "SAT": 100}[v] for v in iwc["value"]]
    return case


def run_case(case):
    mode = case.get("mode", "table")
    spec = case["spec"]
    if mode in ("table", "none"):
        def nt(res):
            st = (res["ctx"].state.get("c19") or {}) if res.get("ctx") is not None else {}
            res["probes"]["capillary_rise_days"] = st.get("cr_days", 0)
            res["probes"]["table_inside_profile_days"] = st.get("table_in_soil_days", 0)
            res["probes"]["compartments_raised_by_CR"] = st.get("raised", 0)
            return mode == "none" or st.get("cr_days", 0) > 0 or st.get("table_in_soil_days", 0) > 0
        res = std_run(case, [mon_c19], probes=("days", "ledger"), nontrivial_fn=nt)
        res["faults"]["mode:" + mode] = 1
        return res
    # far-table twin
    res = {"status": "ok", "violations": [], "faults": {"mode:far": 1}, "probes": {}, "days": 0, "nontrivial": [], "evals": 1}
    try:
        a = Node(spec)
        a.run_to_end()
        ta = a.tables()
        sp2 = clone(spec)
        sp2["gw"] = {"water_table": "Y", "method": "Constant", "dates": [spec["start"].replace("/", "")], "values": [50.0]}
        b = Node(sp2)
        b.run_to_end()
        tb = b.tables()
        res["days"] = a.steps_done + b.steps_done
        d = diff_tables(ta, tb, skip_cols={"flux": [FI["z_gw"]]})
        if d is not None:
            res["violations"].append({"sig": "C19:far-table-differs-from-none", "msg": f"water table at 50 m vs no water table: {d}", "where": {}})
        res["nontrivial"] = [config_sig(spec) + "#far"]
    except CaseTimeout:
        raise
    except Exception as e:  # noqa: BLE001
        kind, sig = classify_exception(e)
        if kind == "harness":
            raise
        res["status"] = "rejected" if kind == "permitted" else "aborted"
        res["reason"] = sig
    return res
