"""Bootstrap: select the tree under test, import aquacrop from it, install the virtual clock.

VERIF_REPO (default /repo) is placed first on sys.path so that a scratch copy of the
repository (mutants, seeded changes) can be put under test without touching /repo.
Nothing is written into the tree (callers run python -B).
"""
import os
import sys
import warnings

REPO = os.path.abspath(os.environ.get("VERIF_REPO", "/repo"))
VERIF = os.path.dirname(os.path.dirname(os.path.abspath(__file__)))

if sys.path[0] != REPO:
    sys.path.insert(0, REPO)

warnings.filterwarnings("ignore")
os.environ.setdefault("PYTHONWARNINGS", "ignore")

import numpy as np  # noqa: E402
import pandas as pd  # noqa: E402

np.seterr(all="ignore")

import aquacrop  # noqa: E402
import aquacrop.core as ac_core  # noqa: E402

_ac_file = os.path.abspath(aquacrop.__file__)
if not _ac_file.startswith(REPO + os.sep):
    raise RuntimeError(f"aquacrop imported from {_ac_file}, expected under {REPO}")


class VirtualTime:
    """Stub for the `time` module as seen by aquacrop.core: a counter owned by the world."""

    def __init__(self):
        self.now = 0.0
        self.reads = 0

    def time(self):
        self.reads += 1
        self.now += 1.0
        return self.now

    def reset(self):
        self.now = 0.0
        self.reads = 0


CLOCK = VirtualTime()
ac_core.time = CLOCK
