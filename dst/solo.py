"""Fresh-interpreter runner: run each spec of a JSON list to completion, alone or in sequence,
and print one digest per spec.  Used by C10 (interpreter restarts, hash seeds, worker assignment)."""
import json
import os
import sys

HERE = os.path.dirname(os.path.abspath(__file__))
sys.path.insert(0, os.path.dirname(HERE))


def run_spec(spec):
    from dst.node import Node, digest_tables
    from dst.domain import classify_exception
    try:
        n = Node(spec)
        n.run_to_end()
        return digest_tables(n.tables())
    except Exception as e:  # noqa: BLE001
        kind, sig = classify_exception(e)
        if kind == "harness":
            raise
        return f"{kind}:{sig}"


def main():
    from dst import boot  # noqa: F401
    with open(sys.argv[1]) as f:
        specs = json.load(f)
    out = [run_spec(s) for s in specs]
    print("DIGESTS " + json.dumps(out))


if __name__ == "__main__":
    main()
