"""Bundle spec -> durable user-side objects -> AquaCropModel.

A *spec* is a plain JSON-serialisable dict; it is the explicit configuration part of every
replay file.  `build_objects(spec)` returns fresh durable objects (the things a user owns and
that outlive a model); `new_model(spec, objs)` a model built from them.
"""
import copy
import datetime as _dt
import json

from . import boot  # noqa: F401  (path + clock)
import numpy as np
import pandas as pd

from aquacrop import (AquaCropModel, Soil, Crop, InitialWaterContent, IrrigationManagement,
                      FieldMngt, GroundWater, CO2)

WEATHER_COLS = ["MinTemp", "MaxTemp", "Precipitation", "ReferenceET", "Date"]


def parse_date(s):
    y, m, d = s.replace("-", "/").split("/")
    return _dt.date(int(y), int(m), int(d))


def fmt_date(d):
    return f"{d.year:04d}/{d.month:02d}/{d.day:02d}"


def default_spec():
    return {
        "start": "1990/05/01",
        "end": "1990/12/31",
        "off_season": False,
        "crop": {"name": "Maize", "planting_date": "05/01", "harvest_date": None, "overrides": {}},
        "soil": {"type": "SandyLoam", "kwargs": {}, "layers": None},
        "iwc": {"wc_type": "Prop", "method": "Layer", "depth_layer": [1], "value": ["FC"]},
        "irr": {"method": 0, "kwargs": {}, "schedule": None},
        "field": None,
        "fallow_field": None,
        "gw": None,
        "co2": None,
        "weather": None,
    }


def weather_frame(w):
    """explicit arrays -> canonical DataFrame (same layout as prepare_weather output)."""
    if w.get("events"):
        from .weather import inject
        w = dict(w, tmin=list(w["tmin"]), tmax=list(w["tmax"]), precip=list(w["precip"]), et0=list(w["et0"]))
        for ev in w["events"]:
            inject(w, ev)
    n = len(w["tmin"])
    start = parse_date(w["start"])
    dates = pd.date_range(start=pd.Timestamp(start), periods=n, freq="D")
    df = pd.DataFrame({
        "MinTemp": np.asarray(w["tmin"], dtype=float),
        "MaxTemp": np.asarray(w["tmax"], dtype=float),
        "Precipitation": np.asarray(w["precip"], dtype=float),
        "ReferenceET": np.asarray(w["et0"], dtype=float),
        "Date": dates,
    })
    return df


def weather_arrays(w):
    """materialised arrays (events applied)"""
    df = weather_frame(w)
    return df


def weather_end(w):
    return parse_date(w["start"]) + _dt.timedelta(days=len(w["tmin"]) - 1)


def build_soil(s):
    kwargs = dict(s.get("kwargs") or {})
    if "dz" in kwargs:
        kwargs["dz"] = list(kwargs["dz"])
    soil = Soil(s["type"], **kwargs)
    if s["type"] == "custom":
        for lay in s["layers"]:
            if lay[0] == "hyd":
                _, thick, wp, fc, sat, ksat, pen = lay
                soil.add_layer(thick, wp, fc, sat, ksat, pen)
            else:
                _, thick, sand, clay, om, pen = lay
                soil.add_layer_from_texture(thick, sand, clay, om, pen)
    return soil


def build_crop(c):
    return Crop(c["name"], planting_date=c["planting_date"], harvest_date=c.get("harvest_date"),
                **dict(c.get("overrides") or {}))


def build_iwc(i):
    return InitialWaterContent(wc_type=i["wc_type"], method=i["method"],
                               depth_layer=list(i["depth_layer"]), value=list(i["value"]))


def build_irr(i):
    kwargs = dict(i.get("kwargs") or {})
    if "SMT" in kwargs:
        kwargs["SMT"] = list(kwargs["SMT"])
    if i["method"] == 3 and i.get("schedule") is not None:
        sch = i["schedule"]
        dates = pd.DatetimeIndex([pd.Timestamp(parse_date(d)) for d, _ in sch]) if sch else pd.DatetimeIndex([])
        depths = [float(x) for _, x in sch]
        df = pd.DataFrame({"Date": dates, "Depth": depths})
        kwargs["Schedule"] = df
    return IrrigationManagement(irrigation_method=i["method"], **kwargs)


def build_field(f):
    if f is None:
        return None
    return FieldMngt(**f)


def build_gw(g):
    if g is None:
        return None
    return GroundWater(water_table=g.get("water_table", "Y"), method=g.get("method", "Constant"),
                       dates=list(g["dates"]), values=list(g["values"]))


def build_co2(c):
    if c is None:
        return None
    kw = {}
    if c.get("series") is not None:
        kw["co2_data"] = pd.DataFrame({"year": [int(y) for y, _ in c["series"]],
                                       "ppm": [float(p) for _, p in c["series"]]})
    if "constant_conc" in c:
        kw["constant_conc"] = bool(c["constant_conc"])
    if "current_concentration" in c:
        kw["current_concentration"] = float(c["current_concentration"])
    return CO2(**kw)


class Objects:
    """The durable, user-owned objects of one bundle."""

    def __init__(self, spec, weather_df=None):
        self.spec = spec
        self.weather_df = weather_df if weather_df is not None else weather_frame(spec["weather"])
        self.soil = build_soil(spec["soil"])
        self.crop = build_crop(spec["crop"])
        self.iwc = build_iwc(spec["iwc"])
        self.irr = build_irr(spec["irr"])
        self.field = build_field(spec.get("field"))
        self.fallow_field = build_field(spec.get("fallow_field"))
        self.gw = build_gw(spec.get("gw"))
        self.co2 = build_co2(spec.get("co2"))


def new_model(spec, objs, start=None, end=None):
    return AquaCropModel(
        sim_start_time=start or spec["start"],
        sim_end_time=end or spec["end"],
        weather_df=objs.weather_df,
        soil=objs.soil,
        crop=objs.crop,
        initial_water_content=objs.iwc,
        irrigation_management=objs.irr,
        field_management=objs.field,
        fallow_field_management=objs.fallow_field,
        groundwater=objs.gw,
        co2_concentration=objs.co2,
        off_season=bool(spec.get("off_season", False)),
    )


def fresh(spec, **kw):
    """fresh objects + fresh model"""
    objs = Objects(spec)
    return objs, new_model(spec, objs, **kw)


def clone(spec):
    return copy.deepcopy(spec)


def canon(spec):
    return json.dumps(spec, sort_keys=True, separators=(",", ":"))
