"""Configuration swarm: seeded generator of bundle specs inside the validity domain (domain.py).

Every draw comes from the `random.Random` passed in.  `profile` biases dimensions for the
property under check (e.g. {"gw": 1.0, "bunds": 0.6}).  Swarm style: each spec first draws
which dimensions are "hot".
"""
import datetime as _dt

from . import boot  # noqa: F401
from . import weather as W
from .spec import default_spec, parse_date, fmt_date, build_soil
from .domain import (CROPS, SOILS, CAL_CROPS, GDD_CROPS, CROP_INFO, DZ_CHOICES, SOIL_LAYERS,
                     soil_layer_table)


def _p(profile, key, default):
    return profile.get(key, default)


def md(date):
    return f"{date.month:02d}/{date.day:02d}"


def planting_dates(spec):
    """independent date arithmetic: first planting on/after start, then every year, <= end"""
    start, end = parse_date(spec["start"]), parse_date(spec["end"])
    m, d = [int(x) for x in spec["crop"]["planting_date"].split("/")]
    out = []
    y = start.year
    while True:
        try:
            p = _dt.date(y, m, d)
        except ValueError:
            y += 1
            continue
        if p > end:
            break
        if p >= start:
            out.append(p)
        y += 1
    return out


def gen_crop(rng, profile):
    pool = profile.get("crops")
    if pool is None:
        r = rng.random()
        cal_w = _p(profile, "calendar_crop_p", 0.55)
        pool = CAL_CROPS if r < cal_w else GDD_CROPS
    name = rng.choice(pool)
    ov = {}
    if rng.random() < _p(profile, "crop_override_p", 0.35):
        for key, vals, p in [("ETadj", [0, 1], 0.3), ("PlantMethod", [0, 1], 0.3),
                             ("GDDmethod", [1, 2, 3], 0.4), ("PolHeatStress", [0, 1], 0.25),
                             ("PolColdStress", [0, 1], 0.25), ("TrColdStress", [0, 1], 0.25),
                             ("Determinant", [0, 1], 0.2)]:
            if rng.random() < p:
                ov[key] = rng.choice(vals)
    if rng.random() < _p(profile, "program_param_p", 0.12):
        # "default program properties" of the Crop class (documented, changeable with expert knowledge): a few plausible values
        key = rng.choice(["LagAer", "LagAer", "Aer", "GermThr"])
        ov[key] = rng.choice({"LagAer": [2, 5, 8], "Aer": [2, 10, 15], "GermThr": [0.1, 0.4]}[key])
    if rng.random() < _p(profile, "calibration_param_p", 0.0):
        # a locally calibrated crop: one or two of the documented crop parameters at another plausible value
        for key in rng.sample(["GDD_lo", "GDD_up", "CCx", "Zmax", "Kcb", "fage"], rng.choice([1, 2])):
            if key == "GDD_lo":
                ov[key] = rng.choice([2, 3, 5])
            elif key == "GDD_up":
                ov[key] = rng.choice([10, 12, 14])
            elif key == "CCx":
                ov[key] = round(CROP_INFO[name]["CCx"] * rng.choice([0.7, 0.85, 0.95]), 3)
            elif key == "Zmax":
                ov[key] = round(max(0.4, CROP_INFO[name]["Zmax"] * rng.choice([0.5, 0.75])), 2)
            elif key == "Kcb":
                ov[key] = rng.choice([0.9, 1.0, 1.15])
            else:
                ov[key] = rng.choice([0.05, 0.3])
    if "Determinant" in ov and CROP_INFO[name]["CropType"] != 3:
        # determinacy is a property of flowering; leafy and root/tuber crops have no flowering period (Flowering = -999)
        del ov["Determinant"]
    if not _p(profile, "allow_etadj0", True):
        ov.pop("ETadj", None)
    if CROP_INFO[name]["CalendarType"] == 1 and rng.random() < _p(profile, "switchgdd_p", 0.0):
        ov["SwitchGDD"] = 1
    return {"name": name, "planting_date": None, "harvest_date": None, "overrides": ov}


def dz_reachable(dz):
    """depth the profile-deepening loop of read_model_parameters can reach (it only extends compartments < 0.25 m)"""
    tot = 0.0
    for d in dz:
        while d < 0.25:
            d = round(d + 0.1, 2)
        tot += d
    return round(tot, 2)


def gen_soil(rng, profile, zmax=2.3):
    kwargs = {}
    layers = None
    if rng.random() < _p(profile, "custom_soil_p", 0.2):
        typ = "custom"
        nl = rng.choice(_p(profile, "n_layers_choices", [1, 1, 2, 2, 3]))
        dz = list(rng.choice([d for d in DZ_CHOICES if profile.get('any_dz') or dz_reachable(d) >= zmax + 0.1]))
        total = round(sum(dz), 2)
        layers = []
        # thicknesses: split total into nl pieces on compartment boundaries
        cuts = sorted(rng.sample(range(1, len(dz)), nl - 1)) if nl > 1 else []
        bounds = [0] + cuts + [len(dz)]
        restrictive = rng.random() < _p(profile, "restrictive_p", 0.25)
        for li in range(nl):
            thick = round(sum(dz[bounds[li]:bounds[li + 1]]), 2)
            if li == nl - 1:
                thick = round(thick + 2.0, 2)  # last layer extends below the profile (deepening)
            pen = 100
            if restrictive and li > 0:
                pen = rng.choice([0, 10, 30, 50, 80])
            if li > 0 and layers[-1][0] == "hyd" and rng.random() < _p(profile, "same_fc_layers_p", 0.2):
                # the same material at another bulk density (plough pan, compacted or loosened horizon): wilting point and
                # field capacity of the layer above, other pore space and conductivity
                _, _, wp, fc, sat0, ksat0, _ = layers[-1]
                sat = round(max(fc + 0.01, sat0 + rng.choice([-1, 1]) * rng.uniform(0.02, 0.12)), 3)
                layers.append(["hyd", thick, wp, fc, sat, rng.choice([2, 15, 100, 500]), pen])
            elif rng.random() < _p(profile, "hyd_layer_p", 0.5):
                wp = round(rng.uniform(0.04, 0.32), 3)
                fc = round(wp + rng.uniform(0.06, 0.22), 3)
                sat = round(fc + rng.uniform(0.01, 0.2), 3)
                ksat = rng.choice([0.5, 1, 2, 5, 15, 35, 100, 225, 500, 1200, 3000])
                layers.append(["hyd", thick, wp, fc, sat, ksat, pen])
            else:
                sand = rng.randint(5, 85)
                clay = rng.randint(5, min(60, 95 - sand))
                om = round(rng.uniform(0.5, 5.0), 1)
                layers.append(["tex", thick, sand, clay, om, pen])
        kwargs["dz"] = dz
        kwargs["cn"] = rng.choice([46, 61, 72, 77, 85])
        kwargs["rew"] = rng.choice([4, 7, 9, 11, 14])
    else:
        pool = profile.get("soils") or SOILS
        typ = rng.choice(pool)
        if rng.random() < _p(profile, "dz_p", 0.3) and typ not in ("ac_TunisLocal",):
            dz = list(rng.choice([d for d in DZ_CHOICES if profile.get('any_dz') or dz_reachable(d) >= zmax + 0.1]))
            if typ == "Paddy" and round(sum(dz), 2) < 0.6:
                dz = [0.1] * 12
            kwargs["dz"] = dz
    if rng.random() < _p(profile, "soil_switch_p", 0.4):
        for key, vals, p in [("adj_rew", [0, 1], 0.3), ("calc_cn", [0, 1], 0.3), ("adj_cn", [0, 1], 0.5),
                             ("z_cn", [0.1, 0.2, 0.25, 0.3, 0.35, 0.5, 0.75], 0.5),
                             ("z_germ", [0.1, 0.25, 0.3, 0.35, 0.5], 0.4),
                             ("z_top", [0.1, 0.15, 0.2, 0.3, 0.4, 0.6], 0.3),
                             ("evap_z_min", [0.1, 0.15, 0.2], 0.15),
                             ("evap_z_max", [0.15, 0.2, 0.3, 0.4], 0.15),
                             ("fwcc", [30, 50, 70], 0.08),
                             ("fshape_cr", [8, 16], 0.1)]:
            if rng.random() < p:
                kwargs[key] = rng.choice(vals)
    if rng.random() < _p(profile, "fixed_evap_layer_p", 0.08):
        # a fixed evaporation layer: the layer is not allowed to expand in stage 2
        kwargs["evap_z_max"] = kwargs.get("evap_z_min", 0.15)
    if kwargs.get("evap_z_max", 0.30) < kwargs.get("evap_z_min", 0.15):
        # the evaporation layer may be fixed (max == min) but not inverted
        kwargs["evap_z_max"] = kwargs.get("evap_z_min", 0.15)
    # domain table: the surface-layer depths lie inside the profile as given (before any deepening for the crop)
    depth = round(sum(kwargs["dz"]), 2) if "dz" in kwargs else (2.0 if typ == "ac_TunisLocal" else 1.2)
    for key in ("z_cn", "z_germ", "z_top"):
        if key in kwargs and kwargs[key] > depth - 0.05:
            del kwargs[key]
    return {"type": typ, "kwargs": kwargs, "layers": layers}


def gen_iwc(rng, profile, soil_spec):
    lt = soil_layer_table(soil_spec)  # [(wp, fc, sat)] per layer actually present
    nl = len(lt)
    kind = rng.choice(_p(profile, "iwc_kinds", ["Prop", "Prop", "Pct", "Num"]))
    method = rng.choice(["Layer", "Layer", "Depth"])
    if nl > 1 and kind != "Num":
        # a property/percentage given at a depth point is converted with that depth's layer and then
        # interpolated across layers, which can leave other layers outside [WP, SAT]: keep to Layer
        method = "Layer"
    hot_sat = rng.random() < _p(profile, "sat_start_p", 0.15)
    if method == "Layer":
        locs = list(range(1, nl + 1))
    else:
        k = rng.choice([1, 2, 3])
        locs = sorted(rng.sample([0.0, 0.1, 0.2, 0.35, 0.5, 0.8, 1.0, 1.2, 1.5], k))
    vals = []
    for i, loc in enumerate(locs):
        if method == "Layer":
            wp, fc, sat = lt[i]
        else:
            wp = max(x[0] for x in lt)
            fc = None
            sat = min(x[2] for x in lt)
        if kind == "Prop":
            vals.append("SAT" if hot_sat else rng.choice(["WP", "FC", "FC", "SAT"]))
        elif kind == "Pct":
            vals.append(rng.choice([0, 10, 30, 50, 70, 90, 100]))
        else:
            if hot_sat:
                vals.append(sat)
            else:
                vals.append(round(rng.uniform(wp, sat), 3))
    return {"wc_type": kind, "method": method, "depth_layer": locs, "value": vals}


def gen_irr(rng, profile, spec):
    methods = _p(profile, "irr_methods", [0, 0, 1, 1, 2, 3, 4, 5])
    m = rng.choice(methods)
    kw = {}
    sched = None
    if m != 0 or rng.random() < 0.1:
        if rng.random() < 0.5:
            kw["AppEff"] = rng.choice([50, 60, 75, 90, 100])
        if rng.random() < 0.3:
            kw["WetSurf"] = rng.choice([10, 30, 60, 100])
        if rng.random() < 0.5:
            kw["MaxIrr"] = rng.choice([5, 10, 15, 25, 40, 80])
        if rng.random() < _p(profile, "season_cap_p", 0.3):
            kw["MaxIrrSeason"] = rng.choice([30, 60, 120, 250, 400])
    if m == 1:
        kw["SMT"] = [rng.choice([0, 20, 40, 50, 60, 70, 80, 90, 100]) for _ in range(4)]
    elif m == 2:
        kw["IrrInterval"] = rng.choice([1, 2, 3, 5, 7, 10, 14])
    elif m == 3:
        start, end = parse_date(spec["start"]), parse_date(spec["end"])
        n = (end - start).days + 1
        k = rng.choice([0, 1, 3, 8, 20, 40])
        pls = planting_dates(spec)
        days = set()
        for _ in range(k):
            r = rng.random()
            if pls and r < 0.6:
                p = rng.choice(pls)
                dd = p + _dt.timedelta(days=rng.randint(0, 150))
            elif r < 0.9:
                dd = start + _dt.timedelta(days=rng.randrange(n))
            else:
                dd = start + _dt.timedelta(days=rng.choice([-30, -1, n, n + 20]))
            days.add(dd)
        if k:
            # entries on the boundary days of each season: the planting day itself, its eve, the nominal last growing day and
            # the day after it
            mat = CROP_INFO[spec["crop"]["name"]]["MaturityCD"]
            for p in pls:
                for off, pr in ((0, 0.4), (-1, 0.15), (mat - 1, 0.25), (mat, 0.15)):
                    if rng.random() < pr:
                        days.add(p + _dt.timedelta(days=off))
        sched = [[fmt_date(d), rng.choice([0, 5, 10, 20, 30, 50, 80])] for d in sorted(days)]
    elif m == 4:
        kw["NetIrrSMT"] = rng.choice([30, 50, 70, 80, 90, 100])
    elif m == 5:
        kw["depth"] = rng.choice([0, 2, 5, 10, 30])
    return {"method": m, "kwargs": kw, "schedule": sched}


def gen_field(rng, profile, soil_cn):
    if rng.random() >= _p(profile, "field_p", 0.45):
        return None
    f = {}
    if rng.random() < _p(profile, "mulch_p", 0.35):
        f["mulches"] = True
        f["mulch_pct"] = rng.choice([0, 20, 50, 80, 100])
        f["f_mulch"] = rng.choice([0.0, 0.3, 0.5, 1.0])
    if rng.random() < _p(profile, "bunds", 0.35):
        f["bunds"] = True
        f["z_bund"] = rng.choice(_p(profile, "z_bund_choices", [0.02, 0.05, 0.1, 0.2, 0.3, 0.0005, 0.002]))
        f["bund_water"] = rng.choice([0, 0, 10, 50, 150, 400])
    if rng.random() < _p(profile, "sr_inhb_p", 0.15):
        f["sr_inhb"] = True
    if rng.random() < _p(profile, "cnadj_p", 0.25):
        f["curve_number_adj"] = True
        hi = int(min(30, (98.0 / soil_cn - 1) * 100))
        f["curve_number_adj_pct"] = rng.choice([x for x in [-30, -15, -5, 0, 5, 10, 20, 30] if x <= hi])
        if rng.random() < 0.2:
            # the upper limit of the property's quantifier: an effective curve number just below or at 100
            import math
            f["curve_number_adj_pct"] = math.floor((100.0 / soil_cn - 1) * 100)
    return f or None


def gen_gw(rng, profile, spec):
    if rng.random() >= _p(profile, "gw", 0.2):
        return None
    start, end = parse_date(spec["start"]), parse_date(spec["end"])
    n = (end - start).days + 1
    depth_pool = _p(profile, "gw_depths", [0.2, 0.45, 0.75, 1.0, 1.15, 1.5, 2.0, 2.5, 3.5, 6.0, 15.0, 50.0])
    r = rng.random()
    if r < 0.45:
        return {"water_table": "Y", "method": "Constant", "dates": [spec["start"].replace("/", "")],
                "values": [rng.choice(depth_pool)]}
    k = rng.randint(2, 6)
    offs = sorted(rng.sample(range(1, n), min(k - 1, n - 1)))
    if len(offs) >= 2 and rng.random() < 0.3:
        # two observations only a few days apart
        j = rng.randrange(len(offs) - 1)
        near = offs[j] + rng.randint(1, 3)
        if near < n and near not in offs:
            offs[j + 1] = near
            offs = sorted(set(offs))
    offs = [0] + offs
    method = "Constant" if r < 0.7 else "Variable"
    if method == "Variable":
        offs = offs + [n - 1] if offs[-1] != n - 1 else offs
    dates = [(start + _dt.timedelta(days=o)).strftime("%Y%m%d") for o in offs]
    base = rng.choice(depth_pool)
    vals = [round(max(0.1, base + rng.uniform(-1.0, 1.0)), 2) for _ in offs]
    if rng.random() < _p(profile, "gw_jump_p", 0.35):
        # E7 water-table jumps: observations alternate between a shallow and a deep regime (drainage works, pumping,
        # a flood), so that the table crosses the whole capillary fringe - or leaves it - from one observation to the next
        shallow = rng.choice([0.3, 0.6, 1.0, 1.4])
        deep = rng.choice([3.0, 5.5, 8.0, 12.0])
        flip = rng.random() < 0.5
        vals = [round((shallow if (i % 2 == 0) != flip else deep) + rng.uniform(0, 0.2), 2) for i in range(len(offs))]
    if method == "Variable" and len(dates) > 2 and rng.random() < _p(profile, "gw_unordered_p", 0.3):
        # the observations are (date, depth) pairs: listing them out of chronological order states the same table
        order = list(range(len(dates)))
        rng.shuffle(order)
        dates = [dates[i] for i in order]
        vals = [vals[i] for i in order]
    return {"water_table": "Y", "method": method, "dates": dates, "values": vals}


def gen_co2(rng, profile, spec):
    r = rng.random()
    if r >= _p(profile, "co2_p", 0.25):
        return None
    k = rng.random()
    if k < 0.4:
        return {"constant_conc": True, "current_concentration": rng.choice([300.0, 369.41, 400.0, 550.0, 700.0, 2100.0])}
    if k < 0.5 and _p(profile, "allow_co2_first_year", True):
        return {"constant_conc": True}
    y0 = parse_date(spec["start"]).year
    y1 = parse_date(spec["end"]).year
    base = rng.choice([280.0, 360.0, 420.0, 600.0])
    # annual record, or a sparse one (a value every 3 / 5 / 10 years, as in scenario tables): the model interpolates in time
    step = rng.choice(_p(profile, "co2_series_steps", [1, 1, 3, 5, 10]))
    first = y0 - 1 - rng.randrange(step)
    years = list(range(first, y1 + 2 + step + _p(profile, "co2_series_extra_years", 0), step))
    series = [[y, round(base + 2.5 * (y - y0) + rng.uniform(-1, 1), 2)] for y in years]
    shape = rng.random()
    if shape < 0.2 and len(series) > 3:
        # scenario steps: the same value for several consecutive years
        for i in range(1, len(series)):
            if rng.random() < 0.6:
                series[i][1] = series[i - 1][1]
    elif shape < 0.35 and y1 - y0 >= 2:
        # a record that ends before the simulation does (the last value is held) or starts after it began
        cut = rng.randint(y0, y1 - 1)
        series = [r for r in series if r[0] <= cut] or series[:1]
    return {"series": series}


def gen_window(rng, profile, crop):
    """choose planting date, start, end.  Returns (planting mm/dd, start date, end date, archetype hint)"""
    info = CROP_INFO[crop["name"]]
    mat = info["MaturityCD"]
    arche = rng.choice(_p(profile, "archetypes", sorted(W.ARCHETYPES)))
    year = rng.randint(1981, 2012)
    if rng.random() < _p(profile, "sensible_planting_p", 0.7):
        if arche in ("tropical", "warm"):
            doy = rng.randint(1, 365)
        elif arche == "semiarid":
            doy = rng.randint(60, 170)
        else:
            doy = rng.randint(95, 150)
    else:
        doy = rng.randint(1, 365)
    if rng.random() < _p(profile, "newyear_p", 0.15):
        doy = rng.randint(365 - max(10, min(mat, 300)), 365)
    p0 = _dt.date(year, 1, 1) + _dt.timedelta(days=doy - 1)
    if p0.month == 2 and p0.day == 29:
        p0 = p0 + _dt.timedelta(days=1)
    nseas = rng.choice(_p(profile, "n_seasons", [1, 1, 1, 2, 2, 3]))
    rel = rng.choice(_p(profile, "start_rel", ["at", "at", "before", "before", "after"]))
    if rel == "at":
        start = p0
    elif rel == "before":
        start = p0 - _dt.timedelta(days=rng.choice([1, 2, 10, 45, 120, 200]))
    else:
        start = p0 - _dt.timedelta(days=365 - rng.choice([1, 5, 30, 100]))  # previous year's planting already passed
        start = max(start, _dt.date(p0.year - 1, p0.month, p0.day) + _dt.timedelta(days=1))
    last_p = _dt.date(p0.year + nseas - 1, p0.month, p0.day)
    endk = rng.choice(_p(profile, "end_kinds", ["after", "after", "after", "mid", "eoy", "harvestish"]))
    if endk == "after":
        end = last_p + _dt.timedelta(days=mat + 31 + rng.choice([5, 30, 90, 150]))
    elif endk == "mid":
        end = last_p + _dt.timedelta(days=rng.randint(2, max(3, mat - 2)))
    elif endk == "eoy":
        end = _dt.date((last_p + _dt.timedelta(days=mat + 40)).year, 12, 31)
    else:
        end = last_p + _dt.timedelta(days=mat + rng.choice([-1, 0, 1, 2, 29, 30, 31, 32]))
    if rng.random() < _p(profile, "leap_end_p", 0.03):
        y = end.year
        while not (y % 4 == 0 and (y % 100 != 0 or y % 400 == 0)):
            y += 1
        end = _dt.date(y, 2, 29)
    if end <= start + _dt.timedelta(days=2):
        end = start + _dt.timedelta(days=10)
    return md(p0), start, end, arche


def season_spans(spec):
    """approximate (planting_offset, maturity_offset) pairs, in days from start, for event placement"""
    start = parse_date(spec["start"])
    mat = CROP_INFO[spec["crop"]["name"]]["MaturityCD"]
    return [((p - start).days, (p - start).days + mat) for p in planting_dates(spec)]


def gen_events(rng, profile, spec):
    start, end = parse_date(spec["start"]), parse_date(spec["end"])
    n = (end - start).days + 1
    wstart = parse_date(spec["weather"]["start"])
    off = (start - wstart).days
    years = max(1.0, n / 365.0)
    lam = _p(profile, "events_per_year", 1.5)
    k = 0
    for _ in range(int(years * 4)):
        if rng.random() < lam / 4.0:
            k += 1
    kinds = _p(profile, "event_kinds", W.EVENT_KINDS)
    spans = season_spans(spec)
    evs = []
    for _ in range(k):
        kind = rng.choice(kinds)
        r = rng.random()
        if spans and r < 0.75:
            a, b = rng.choice(spans)
            rr = rng.random()
            if rr < 0.15:
                day = a + rng.choice([-1, 0, 0, 1])
            elif rr < 0.30:
                day = b + rng.choice([-2, -1, 0, 1])
            else:
                day = rng.randint(a, max(a, b))
        else:
            day = rng.randrange(n)
        evs.append(W.make_event(rng, kind, day + off))
    return evs


def gen_spec(rng, profile=None):
    profile = profile or {}
    spec = default_spec()
    crop = gen_crop(rng, profile)
    pm, start, end, arche = gen_window(rng, profile, crop)
    crop["planting_date"] = pm
    spec["crop"] = crop
    spec["start"], spec["end"] = fmt_date(start), fmt_date(end)
    spec["off_season"] = rng.random() < _p(profile, "off_season_p", 0.4)
    spec["soil"] = gen_soil(rng, profile, zmax=CROP_INFO[crop["name"]]["Zmax"])
    spec["iwc"] = gen_iwc(rng, profile, spec["soil"])
    spec["irr"] = gen_irr(rng, profile, spec)
    cn = soil_cn(spec["soil"])
    spec["field"] = gen_field(rng, profile, cn)
    if rng.random() < _p(profile, "fallow_field_p", 0.25):
        spec["fallow_field"] = gen_field(rng, dict(profile, field_p=1.0), cn)
    spec["gw"] = gen_gw(rng, profile, spec)
    spec["co2"] = gen_co2(rng, profile, spec)
    # weather: some padding before/after the window
    pad_a = rng.choice([0, 0, 1, 30, 400])
    pad_b = rng.choice([0, 0, 1, 30, 400])
    ext = _p(profile, "weather_extra_after", 0)
    pad_a += _p(profile, "weather_extra_before", 0)
    w = W.make_weather(rng, start - _dt.timedelta(days=pad_a), end + _dt.timedelta(days=pad_b + ext),
                       archetype=arche if rng.random() >= _p(profile, "station_p", 0.2) else None,
                       station_p=1.0)
    spec["weather"] = w
    evs = gen_events(rng, profile, spec)
    # events are kept separate from the base arrays and applied when the frame is built,
    # so that the minimiser can drop them one by one
    n = len(w["tmin"])
    w["events"] = [ev for ev in evs if ev["day"] < n and ev["day"] + ev["len"] > 0]
    return spec


def soil_cn(soil_spec):
    from .domain import SOIL_CN
    if soil_spec.get("kwargs", {}).get("calc_cn") == 1:
        return 77  # upper bound of the Ksat-derived values (with calc_cn the model ignores the stated curve number)
    if "cn" in soil_spec.get("kwargs", {}) and soil_spec["type"] == "custom":
        return soil_spec["kwargs"]["cn"]
    return SOIL_CN.get(soil_spec["type"], 61)
