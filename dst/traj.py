"""Trajectory engine for B-kind properties: drive one node through a seeded step partition,
evaluate monitors on the state between days, collect reach measures."""
import random

from . import boot  # noqa: F401
import numpy as np

from .node import Node, SimCrash
from .monitors import RunContext, state_signature, probes_of, PreconditionFailed
from .domain import classify_exception
from .engine import CaseTimeout


def make_partition(rng, kind=None):
    """generator of step counts for run_model(num_steps=k, initialize_model=False)"""
    kind = kind or rng.choice(["ones", "small", "medium", "mixed", "large", "all"])
    def gen():
        while True:
            if kind == "ones":
                yield 1
            elif kind == "small":
                yield rng.randint(1, 7)
            elif kind == "medium":
                yield rng.randint(8, 60)
            elif kind == "mixed":
                yield rng.choice([1, 1, 2, 3, 10, 30, 90, 400, rng.randint(1, 40), rng.randint(1, 40)])
            elif kind == "large":
                yield rng.choice([30, 100, 365, 1000])
            else:
                yield 100000
    return kind, gen()


def run_trajectory(spec, monitors, probes=("days",), partition=None, controller=None, max_viol=5,
                   first_call_init=False, part_seed=0, collect_states=True, extra_day_hooks=(), setup=None):
    """-> result dict (status, violations, faults, probes, days, states, nontrivial)"""
    res = {"status": "ok", "violations": [], "faults": {}, "probes": {}, "days": 0, "states": [], "nontrivial": []}
    prng = random.Random(part_seed)
    kind, parts = make_partition(prng, partition)
    res["faults"]["partition:" + kind] = 1
    node = None
    try:
        node = Node(spec, probes=probes)
        if setup is not None:
            setup(node)
        ctxbox = {}
        states = set()

        def on_day(n, rec):
            ctx = ctxbox["ctx"]
            for mon in monitors:
                for sig, msg in mon(ctx, rec):
                    if len(res["violations"]) < max_viol and not any(v["sig"] == sig for v in res["violations"]):
                        res["violations"].append({"sig": sig, "msg": msg, "where": {"t": rec.t}})
            if collect_states:
                states.add(state_signature(ctx, rec))
            probes_of(ctx, rec, res["probes"])
            ctx.prev = rec
            if controller is not None:
                controller(n, rec, ctx)
            # keep memory bounded: monitors only need the previous record
            n.records.clear()

        # extra hooks observe the state right after the daily solution, before the controller (inside on_day) acts
        for h in extra_day_hooks:
            node.day_hooks.append(h)
        node.day_hooks.append(on_day)
        if first_call_init:
            # first call initialises: context must exist before day 0 runs -> build it lazily
            class Lazy:
                pass
            def lazy_pre(n, t):
                if "ctx" not in ctxbox:
                    ctxbox["ctx"] = RunContext(n)
            node.pre_day_hooks.append(lazy_pre)
            node.first_call(next(parts))
        else:
            node.initialize()
            ctxbox["ctx"] = RunContext(node)
        cap = len(node.clock.time_span) + 5
        calls = 0
        while not node.finished:
            node.step(next(parts))
            calls += 1
            if calls > cap:
                res["violations"].append({"sig": "liveness:not-finished-within-len(time_span)-calls",
                                          "msg": f"node not finished after {calls} calls", "where": {}})
                break
        res["days"] = node.steps_done
        res["states"] = sorted(hash(s) & 0xFFFFFFFF for s in states)
        res["ctx_state"] = {k: v for k, v in ctxbox["ctx"].state.items() if isinstance(v, (int, float))}
        res["node"] = node
        res["ctx"] = ctxbox["ctx"]
    except CaseTimeout:
        raise
    except SimCrash:
        raise
    except PreconditionFailed as e:
        res["status"] = "precondition"
        res["reason"] = str(e)
    except Exception as e:  # noqa: BLE001
        kind_, sig = classify_exception(e)
        if kind_ == "harness":
            raise
        res["days"] = node.steps_done if node is not None else 0
        if kind_ == "permitted":
            res["status"] = "rejected"
            res["reason"] = sig
        else:
            res["status"] = "aborted"
            res["reason"] = sig
            res["exc"] = e
    return res


def finish(res):
    """strip non-serialisable members before a result leaves the worker"""
    res.pop("node", None)
    res.pop("ctx", None)
    res.pop("exc", None)
    return res
