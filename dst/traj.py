"""Trajectory engine for B-kind properties: drive one node through a seeded step partition,
evaluate monitors on the state between days, collect reach measures."""
import random

from . import boot  # noqa: F401
import numpy as np

from .node import Node, SimCrash
from .monitors import RunContext, state_signature, probes_of, PreconditionFailed
from .domain import classify_exception
from .engine import CaseTimeout


def make_partition(rng, kind=None):
    """generator of step counts for run_model(num_steps=k, initialize_model=False)"""
    kind = kind or rng.choice(["ones", "small", "medium", "mixed", "large", "all"])
    def gen():
        while True:
            if kind == "ones":
                yield 1
            elif kind == "small":
                yield rng.randint(1, 7)
            elif kind == "medium":
                yield rng.randint(8, 60)
            elif kind == "mixed":
                yield rng.choice([1, 1, 2, 3, 10, 30, 90, 400, rng.randint(1, 40), rng.randint(1, 40)])
            elif kind == "large":
                yield rng.choice([30, 100, 365, 1000])
            else:
                yield 100000
    return kind, gen()


def run_trajectory(spec, monitors, probes=("days",), partition=None, controller=None, max_viol=5,
                   first_call_init=False, part_seed=0, collect_states=True, extra_day_hooks=(), setup=None):
    """-> result dict (status, violations, faults, probes, days, states, nontrivial)"""
    res = {"status": "ok", "violations": [], "faults": {}, "probes": {}, "days": 0, "states": [], "nontrivial": []}
    prng = random.Random(part_seed)
    kind, parts = make_partition(prng, partition)
    res["faults"]["partition:" + kind] = 1
    node = None
    try:
        node = Node(spec, probes=probes)
        if setup is not None:
            setup(node)
        ctxbox = {}
        states = set()

        def on_day(n, rec):
            ctx = ctxbox["ctx"]
            for mon in monitors:
                for sig, msg in mon(ctx, rec):
                    if len(res["violations"]) < max_viol and not any(v["sig"] == sig for v in res["violations"]):
                        res["violations"].append({"sig": sig, "msg": msg, "where": {"t": rec.t}})
            if collect_states:
                states.add(state_signature(ctx, rec))
            probes_of(ctx, rec, res["probes"])
            ctx.prev = rec
            if controller is not None:
                controller(n, rec, ctx)
            # keep memory bounded: monitors only need the previous record
            n.records.clear()

        reactive = [dict(r) for r in (spec.get("reactive") or [])]
        if reactive:
            node.pre_day_hooks.append(make_reactive_hook(reactive, res["faults"]))
        # extra hooks observe the state right after the daily solution, before the controller (inside on_day) acts
        for h in extra_day_hooks:
            node.day_hooks.append(h)
        node.day_hooks.append(on_day)
        if first_call_init:
            # first call initialises: context must exist before day 0 runs -> build it lazily
            class Lazy:
                pass
            def lazy_pre(n, t):
                if "ctx" not in ctxbox:
                    ctxbox["ctx"] = RunContext(n)
            node.pre_day_hooks.append(lazy_pre)
            node.first_call(next(parts))
        else:
            node.initialize()
            ctxbox["ctx"] = RunContext(node)
        cap = len(node.clock.time_span) + 5
        calls = 0
        while not node.finished:
            node.step(next(parts))
            calls += 1
            if calls > cap:
                res["violations"].append({"sig": "liveness:not-finished-within-len(time_span)-calls",
                                          "msg": f"node not finished after {calls} calls", "where": {}})
                break
        res["days"] = node.steps_done
        res["states"] = sorted(hash(s) & 0xFFFFFFFF for s in states)
        res["ctx_state"] = {k: v for k, v in ctxbox["ctx"].state.items() if isinstance(v, (int, float))}
        res["node"] = node
        res["ctx"] = ctxbox["ctx"]
    except CaseTimeout:
        raise
    except SimCrash:
        raise
    except PreconditionFailed as e:
        res["status"] = "precondition"
        res["reason"] = str(e)
    except Exception as e:  # noqa: BLE001
        kind_, sig = classify_exception(e)
        if kind_ == "harness":
            raise
        res["days"] = node.steps_done if node is not None else 0
        if kind_ == "permitted":
            res["status"] = "rejected"
            res["reason"] = sig
        else:
            res["status"] = "aborted"
            res["reason"] = sig
            res["exc"] = e
    return res


REACTIVE_TRIGGERS = ("season_end", "season_end_ponded", "season_start", "pond_nearly_empty", "early_senescence", "canopy_below_initial_size",
                     "top_soil_saturated", "root_zone_waterlogged", "water_table_drops", "water_table_rises")
REACTIVE_ACTIONS = ("storm", "wet_spell", "dry", "et0_spike", "et0_floor")


def _will_grow_today(model):
    """independent statement of the model's in-season rule, from the clock and the condition flags at the start of the day"""
    c = model._clock_struct
    cond = model._init_cond
    k = int(c.season_counter)
    if k < 0:
        return False
    cur = c.step_start_time
    return bool(c.planting_dates[k] <= cur and c.harvest_dates[k] > cur and not cond.crop_mature and not cond.crop_dead)


def make_reactive_hook(reactive, faults):
    """State-triggered weather faults.  Each entry {when, action, mag, len, delay, max_fires} is evaluated at the start of every
    day on the state the model shows then; when it fires the world rewrites the rain / reference-ET cells of the days
    [t+delay, t+delay+len) of the model's own weather array (never a past day, never a temperature: the thermal calendar of a
    season is computed from the temperatures at its start).  The rule, not the day, is part of the case, so a replay fires at the
    same instants as long as the code under test behaves the same."""
    import numpy as np
    for r in reactive:
        r["_fired"] = 0
        r["_prev"] = None

    def hook(node, t):
        m = node.model
        cond = m._init_cond
        W = m._weather
        n = len(W)
        grow_today = _will_grow_today(m)
        grew_yesterday = bool(cond.growing_season)
        for r in reactive:
            if r["_fired"] >= r.get("max_fires", 2):
                continue
            when = r["when"]
            if when == "season_end":
                cur = grew_yesterday and not grow_today
            elif when == "season_end_ponded":
                cur = grew_yesterday and not grow_today and float(cond.surface_storage) > 0
            elif when == "season_start":
                cur = grow_today and not grew_yesterday
            elif when == "pond_nearly_empty":
                cur = 0 < float(cond.surface_storage) < 6.0
            elif when == "early_senescence":
                cur = grow_today and bool(cond.premat_senes)
            elif when == "canopy_below_initial_size":
                k = int(m._clock_struct.season_counter)
                cur = grow_today and k >= 0 and float(cond.cc0_adj) < float(m._param_struct.Seasonal_Crop_List[k].CC0) - 1e-12
            elif when == "top_soil_saturated":
                prof = m._param_struct.Soil.Profile
                cur = bool(cond.th[0] >= prof.th_s[0] - 1e-9)
            elif when == "root_zone_waterlogged":
                cur = grow_today and int(cond.aer_days) > 0
            elif when in ("water_table_drops", "water_table_rises"):
                # the configured series is known to the world in advance: a change of more than a metre from yesterday to today
                z = m._param_struct.z_gw
                d = float(z[t]) - float(z[t - 1]) if (0 < t < len(z) and m._param_struct.water_table == 1) else 0.0
                cur = (d > 1.0) if when == "water_table_drops" else (d < -1.0)
            else:
                raise ValueError(when)
            edge = cur and not r["_prev"]
            r["_prev"] = cur
            if not edge:
                continue
            a = t + int(r.get("delay", 0))
            b = min(n, a + int(r.get("len", 1)))
            if a >= n:
                continue
            act = r["action"]
            for i in range(a, b):
                if act in ("storm", "wet_spell"):
                    W[i][2] = float(r["mag"])
                elif act == "dry":
                    W[i][2] = 0.0
                elif act == "et0_spike":
                    W[i][3] = float(r["mag"])
                elif act == "et0_floor":
                    W[i][3] = float(r.get("mag") or 0.1)
                else:
                    raise ValueError(act)
            r["_fired"] += 1
            key = f"reactive:{when}:{act}"
            faults[key] = faults.get(key, 0) + 1
    return hook


def gen_reactive(rng, n_max=2, triggers=None):
    out = []
    for _ in range(rng.randint(1, n_max)):
        when = rng.choice(triggers or REACTIVE_TRIGGERS)
        act = rng.choice(["storm", "storm", "wet_spell", "dry", "et0_spike", "et0_floor"])
        r = {"when": when, "action": act, "delay": rng.choice([0, 0, 0, 1, 2]), "max_fires": rng.choice([1, 2, 4])}
        if act == "storm":
            r.update(mag=rng.choice([12.0, 25.0, 40.0, 60.0, 120.0, 250.0]), len=rng.choice([1, 1, 2]))
        elif act == "wet_spell":
            r.update(mag=rng.choice([8.0, 15.0, 25.0]), len=rng.choice([5, 12, 30]))
        elif act == "dry":
            r.update(mag=0.0, len=rng.choice([10, 30, 60]))
        elif act == "et0_spike":
            r.update(mag=rng.choice([8.0, 11.0, 14.0]), len=rng.choice([1, 3, 8]))
        else:
            r.update(mag=rng.choice([0.1, 0.05, 0.02]), len=rng.choice([1, 3, 8]))
        out.append(r)
    return out


def finish(res):
    """strip non-serialisable members before a result leaves the worker"""
    res.pop("node", None)
    res.pop("ctx", None)
    res.pop("exc", None)
    return res
