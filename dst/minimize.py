"""Simplification candidates for delta debugging of a case (spec level).

Each candidate is a deep copy of the case with exactly one thing made simpler.  The engine
accepts a candidate only if the same violation signature persists.
"""
import copy
import datetime as _dt

from .spec import default_spec, parse_date, fmt_date


def _c(case):
    return copy.deepcopy(case)


def spec_simplifiers(case, violation=None, spec_key="spec"):
    spec = case[spec_key]
    dflt = default_spec()
    w = spec.get("weather") or {}
    # 1. environment events
    evs = w.get("events") or []
    if evs:
        c = _c(case)
        c[spec_key]["weather"]["events"] = []
        yield c
        if len(evs) > 1:
            for i in range(len(evs)):
                c = _c(case)
                del c[spec_key]["weather"]["events"][i]
                yield c
    rx = spec.get("reactive") or []
    if rx:
        c = _c(case)
        c[spec_key]["reactive"] = []
        yield c
        if len(rx) > 1:
            for i in range(len(rx)):
                c = _c(case)
                del c[spec_key]["reactive"][i]
                yield c
    # 2. configuration dimensions back to default
    for key in ("field", "fallow_field", "gw", "co2"):
        if spec.get(key) is not None:
            c = _c(case)
            c[spec_key][key] = None
            yield c
            if isinstance(spec[key], dict) and len(spec[key]) > 1 and key in ("field", "fallow_field"):
                for k in list(spec[key]):
                    c = _c(case)
                    del c[spec_key][key][k]
                    if c[spec_key][key]:
                        yield c
    if spec["irr"] != dflt["irr"]:
        c = _c(case)
        c[spec_key]["irr"] = copy.deepcopy(dflt["irr"])
        yield c
        if spec["irr"].get("kwargs"):
            for k in list(spec["irr"]["kwargs"]):
                c = _c(case)
                del c[spec_key]["irr"]["kwargs"][k]
                yield c
        if spec["irr"].get("schedule") and len(spec["irr"]["schedule"]) > 1:
            sch = spec["irr"]["schedule"]
            for half in (sch[: len(sch) // 2], sch[len(sch) // 2:]):
                c = _c(case)
                c[spec_key]["irr"]["schedule"] = copy.deepcopy(half)
                yield c
    if spec["iwc"] != dflt["iwc"] and spec["soil"].get("type") != "custom":
        c = _c(case)
        c[spec_key]["iwc"] = copy.deepcopy(dflt["iwc"])
        if c[spec_key]["soil"]["type"] in ("Paddy", "ac_TunisLocal"):
            c[spec_key]["iwc"]["depth_layer"] = [1, 2]
            c[spec_key]["iwc"]["value"] = ["FC", "FC"]
        yield c
    if spec["soil"].get("kwargs"):
        for k in list(spec["soil"]["kwargs"]):
            if spec["soil"]["type"] == "custom" and k == "dz":
                continue
            c = _c(case)
            del c[spec_key]["soil"]["kwargs"][k]
            yield c
    if spec["soil"]["type"] not in ("SandyLoam",) and spec["iwc"]["method"] == "Layer" and len(spec["iwc"]["depth_layer"]) == 1 \
            and spec["iwc"]["wc_type"] != "Num":
        c = _c(case)
        c[spec_key]["soil"] = {"type": "SandyLoam", "kwargs": {k: v for k, v in spec["soil"].get("kwargs", {}).items() if k not in ("cn", "rew")}, "layers": None}
        yield c
    if spec["crop"].get("overrides"):
        c = _c(case)
        c[spec_key]["crop"]["overrides"] = {}
        yield c
        for k in list(spec["crop"]["overrides"]):
            c = _c(case)
            del c[spec_key]["crop"]["overrides"][k]
            yield c
    if spec.get("off_season"):
        c = _c(case)
        c[spec_key]["off_season"] = False
        yield c
    # 3. window: pull the end in
    start, end = parse_date(spec["start"]), parse_date(spec["end"])
    n = (end - start).days
    day = None
    if violation is not None:
        day = (violation.get("where") or {}).get("t")
    cands = []
    if day is not None and day + 2 < n:
        cands.append(day + 2)
    for frac in (0.5, 0.75, 0.9):
        k = int(n * frac)
        if k >= 3 and k < n:
            cands.append(k)
    for k in cands:
        c = _c(case)
        c[spec_key]["end"] = fmt_date(start + _dt.timedelta(days=k))
        yield c
    # 4. flatten weather far from the failure
    if w and day is not None and not w.get("flat"):
        c = _c(case)
        ww = c[spec_key]["weather"]
        off = (start - parse_date(ww["start"])).days + day
        m = len(ww["tmin"])
        from .spec import weather_frame
        df = weather_frame(ww)
        ww["events"] = []
        ww["tmin"] = [round(float(x), 2) for x in df.MinTemp.values]
        ww["tmax"] = [round(float(x), 2) for x in df.MaxTemp.values]
        ww["precip"] = [round(float(x), 2) for x in df.Precipitation.values]
        ww["et0"] = [round(float(x), 2) for x in df.ReferenceET.values]
        for i in range(m):
            if abs(i - off) > 10:
                ww["tmin"][i], ww["tmax"][i], ww["precip"][i], ww["et0"][i] = 12.0, 24.0, 0.0, 4.0
        ww["flat"] = True
        yield c
